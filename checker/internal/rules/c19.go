package rules

import (
	"fmt"
	"go/token"
	"go/types"
	"regexp"
	"sort"
	"strconv"
	"strings"

	"golang.org/x/tools/go/ssa"

	"lalverif/internal/model"
	"lalverif/internal/report"
)

func init() { register("C19", c19) }

type bitItem struct {
	Field string
	Off   int64
	Width int64
	Const string // constant value written, if any
	In    ssa.Instruction
}

// bitLayout extracts the ordered nazabits accesses of fn: for writers the (width, value)
// sequence, for readers the (width, destination field) sequence, with cumulative bit offsets.
// ok=false when the accesses are not totally ordered by dominance or a width is not constant.
func bitLayout(fn *ssa.Function) (items []bitItem, total int64, ok bool) {
	type acc struct {
		in    ssa.CallInstruction
		name  string
		width int64
	}
	var accs []acc
	ok = true
	model.EachInstr(fn, func(in ssa.Instruction) {
		ci, isC := in.(ssa.CallInstruction)
		if !isC {
			return
		}
		o := model.CalleeObj(ci.Common())
		if o == nil || o.Pkg() == nil || !strings.HasSuffix(o.Pkg().Path(), "naza/pkg/nazabits") {
			return
		}
		n := o.Name()
		if !(strings.HasPrefix(n, "WriteBit") || strings.HasPrefix(n, "ReadBit") || n == "SkipBits" || n == "SkipBytes") {
			return
		}
		var w int64 = 1
		if n != "WriteBit" && n != "ReadBit" {
			k, isK := model.ConstInt(ci.Common().Args[1])
			if !isK {
				ok = false
				return
			}
			w = k
			if n == "SkipBytes" {
				w *= 8
			}
		}
		accs = append(accs, acc{ci, n, w})
	})
	for i := 1; i < len(accs); i++ {
		if !model.InstrDominates(accs[i-1].in, accs[i].in) {
			ok = false
		}
	}
	var off int64
	for _, a := range accs {
		it := bitItem{Off: off, Width: a.width, In: a.in}
		switch {
		case strings.HasPrefix(a.name, "Write"):
			v := a.in.Common().Args[len(a.in.Common().Args)-1]
			it.Field = valueTokenArith(v)
			if strings.HasPrefix(it.Field, "const:") {
				it.Const = strings.TrimPrefix(it.Field, "const:")
			}
		case strings.HasPrefix(a.name, "Read"):
			if call, isCall := a.in.(*ssa.Call); isCall {
				// first result of the tuple
				if refs := call.Referrers(); refs != nil {
					for _, ref := range *refs {
						if ex, isEx := ref.(*ssa.Extract); isEx && ex.Index == 0 {
							it.Field = destField(ex)
						}
					}
				}
			}
		default:
			it.Field = "(skip)"
		}
		items = append(items, it)
		off += a.width
	}
	return items, off, ok
}

// valueTokenArith is valueToken looking through +/- constants (AudioObjectType-1).
func valueTokenArith(v ssa.Value) string {
	v = model.Unwrap(v)
	for i := 0; i < 4; i++ {
		b, ok := v.(*ssa.BinOp)
		if !ok || (b.Op != token.ADD && b.Op != token.SUB) {
			break
		}
		if _, isK := model.ConstInt(b.Y); isK {
			v = model.Unwrap(b.X)
			continue
		}
		break
	}
	return valueToken(v)
}

// destField follows a read value (through conversions and +/- constants) to the struct field
// it is stored into.
func destField(v ssa.Value) string {
	seen := map[ssa.Value]bool{}
	var rec func(ssa.Value, int) string
	rec = func(x ssa.Value, d int) string {
		if d > 6 || seen[x] || x.Referrers() == nil {
			return ""
		}
		seen[x] = true
		for _, ref := range *x.Referrers() {
			switch y := ref.(type) {
			case *ssa.Store:
				if y.Val == x {
					if f := model.FieldOf(y.Addr); f != nil {
						return f.Name()
					}
				}
			case *ssa.Convert:
				if s := rec(y, d+1); s != "" {
					return s
				}
			case *ssa.BinOp:
				if s := rec(y, d+1); s != "" {
					return s
				}
			}
		}
		return ""
	}
	return rec(v, 0)
}

func bitMap(items []bitItem) map[string]string {
	m := map[string]string{}
	for _, it := range items {
		if it.Field == "" || it.Field == "(skip)" || strings.HasPrefix(it.Field, "const:") {
			continue
		}
		m[it.Field] = fmt.Sprintf("@%d/%d", it.Off, it.Width)
	}
	return m
}

// sprintfArgs resolves the variadic arguments of a fmt.Sprintf call to their SSA values.
func sprintfArgs(call ssa.CallInstruction) []ssa.Value {
	args := call.Common().Args
	if len(args) < 2 {
		return nil
	}
	sl, ok := args[1].(*ssa.Slice)
	if !ok {
		return nil
	}
	arr, ok := sl.X.(*ssa.Alloc)
	if !ok || arr.Referrers() == nil {
		return nil
	}
	out := map[int64]ssa.Value{}
	var max int64 = -1
	for _, ref := range *arr.Referrers() {
		ia, ok := ref.(*ssa.IndexAddr)
		if !ok || ia.Referrers() == nil {
			continue
		}
		i, _ := model.ConstInt(ia.Index)
		for _, r2 := range *ia.Referrers() {
			if st, ok := r2.(*ssa.Store); ok {
				out[i] = model.Unwrap(st.Val)
				if i > max {
					max = i
				}
			}
		}
	}
	res := make([]ssa.Value, max+1)
	for i := range res {
		res[i] = out[int64(i)]
	}
	return res
}

func c19(p *model.Prog, r *report.Result) {
	r.Explanation = "Decides table/layout agreement conditions of codec configuration handling: the AudioSpecificConfig and ADTS bit layouts written by AscContext.Pack / PackToAdtsHeader give every field the bit offset and width that AscContext.Unpack / AdtsHeaderContext.Unpack read, the ADTS header is 56 bits with the 0xFFF syncword (R1); GetSamplingFrequency equals ISO/IEC 14496-3 table 1.18 (R2); every SDP media template lal generates names a payload type equal to its m= line and an encoding name that lal's own parser maps back to the AvPacketPt of the emitting branch, and every sprop-*/config key written is a key the parser looks up (R3)."
	r.NotDecided = []string{"byte identity of parameter sets through every representation", "Annex-B/AVCC conversion of NAL unit lists", "SPS dimension parsing (values)", "SDP control URLs and clock rates as values"}
	r.Count("functions_analysed", 10)

	// ---------------------------------------------------------------- R1
	r.Rule("C19.R1", "nazabits layouts: AscContext.Pack vs AscContext.Unpack and AscContext.PackToAdtsHeader vs AdtsHeaderContext.Unpack agree on (bit offset, width) of AudioObjectType, SamplingFrequencyIndex, ChannelConfiguration and the 13-bit frame length; Pack writes 13 bits into a 2-byte buffer, PackToAdtsHeader writes exactly AdtsHeaderLength*8 bits starting with 12 one-bits")
	pairs := []struct{ w, rd *ssa.Function }{
		{p.Method("pkg/aac", "AscContext", "Pack"), p.Method("pkg/aac", "AscContext", "Unpack")},
		{p.Method("pkg/aac", "AscContext", "PackToAdtsHeader"), p.Method("pkg/aac", "AdtsHeaderContext", "Unpack")},
	}
	for _, pr := range pairs {
		wi, wtot, okW := bitLayout(pr.w)
		ri, _, okR := bitLayout(pr.rd)
		key := fkey(pr.w, "bits", "vs-"+model.FnName(pr.rd))
		if !okW || !okR || len(wi) == 0 || len(ri) == 0 {
			r.Bad("C19.R1", key, p.Pos(pr.w.Pos()), "bit accesses are not a straight-line sequence of constant widths; layout cannot be extracted")
			continue
		}
		wm, rm := bitMap(wi), bitMap(ri)
		var fields []string
		for f := range rm {
			fields = append(fields, f)
		}
		sort.Strings(fields)
		for _, f := range fields {
			wf := f
			if f == "AdtsLength" { // the reader's name for the 13-bit aac_frame_length the writer computes from frameLength
				wf = "frameLength"
			}
			r.Check(wm[wf] != "" && wm[wf] == rm[f], "C19.R1", key+"|"+f, p.Pos(pr.w.Pos()), "writer "+wm[wf]+" == reader "+rm[f], "field "+f+" is written at bits "+wm[wf]+" but read at bits "+rm[f])
		}
		if len(fields) < 3 {
			r.Bad("C19.R1", key+"|floor", p.Pos(pr.rd.Pos()), "fewer than 3 fields read")
		}
		if pr.w.Name() == "PackToAdtsHeader" {
			sync := len(wi) > 0 && wi[0].Width == 12 && wi[0].Const == "4095"
			r.Check(wtot == 56 && sync, "C19.R1", key+"|adts-size", p.Pos(pr.w.Pos()), "56 bits, syncword 0xFFF", fmt.Sprintf("ADTS header is %d bits / syncword %v", wtot, sync))
		} else {
			r.Check(wtot == 13, "C19.R1", key+"|asc-size", p.Pos(pr.w.Pos()), "13 bits", fmt.Sprintf("AudioSpecificConfig is %d bits", wtot))
		}
	}

	// ---------------------------------------------------------------- R2
	r.Rule("C19.R2", "AscContext.GetSamplingFrequency maps index k to the frequency of ISO/IEC 14496-3 table 1.18 for k=0..12 and nothing else")
	iso := map[int64]int64{0: 96000, 1: 88200, 2: 64000, 3: 48000, 4: 44100, 5: 32000, 6: 24000, 7: 22050, 8: 16000, 9: 12000, 10: 11025, 11: 8000, 12: 7350}
	gsf := p.Method("pkg/aac", "AscContext", "GetSamplingFrequency")
	sfi := p.Field("pkg/aac", "AscContext", "SamplingFrequencyIndex")
	got := map[int64]int64{}
	for _, b := range gsf.Blocks {
		iff, ok := b.Instrs[len(b.Instrs)-1].(*ssa.If)
		if !ok {
			continue
		}
		x, k, op, _, ok := constCmp(iff.Cond)
		if !ok || op != token.EQL || !model.IsLoadOfField(x, sfi) {
			continue
		}
		if ret, isRet := b.Succs[0].Instrs[len(b.Succs[0].Instrs)-1].(*ssa.Return); isRet {
			if v, isK := model.ConstInt(model.ReturnValues(ret)[0]); isK {
				got[k] = v
			}
		}
	}
	okTab := len(got) == len(iso)
	for k, v := range iso {
		if got[k] != v {
			okTab = false
		}
	}
	r.Check(okTab, "C19.R2", fkey(gsf, "table", "sampling-frequency"), p.Pos(gsf.Pos()), "13 entries equal to ISO 14496-3 table 1.18", fmt.Sprintf("sampling frequency table %v differs from ISO 14496-3 table 1.18", got))

	// ---------------------------------------------------------------- R3
	r.Rule("C19.R3", "for every constant SDP media template in sdp.buildVideoSdpInfo/buildAudioSdpInfo: the a=rtpmap (and a=fmtp) payload type equals the m= line's, both equal the AvPacketPt the branch is guarded by, the encoding name is mapped by ParseSdp2LogicContext to that same AvPacketPt, and every sprop-*/config key is a key ParseAsc/ParseSpsPps/ParseVpsSpsPps look up")
	// parser table: encoding name -> AvPacketPt
	parse := p.Func("pkg/sdp", "ParseSdp2LogicContext")
	apt := p.Field("pkg/sdp", "LogicContext", "audioPayloadTypeBase")
	vpt := p.Field("pkg/sdp", "LogicContext", "videoPayloadTypeBase")
	parserMap := map[string]int64{} // lower-cased for audio (EqualFold), exact for video
	for _, f := range []*types.Var{apt, vpt} {
		for _, st := range model.FieldStores(parse, f) {
			k, isK := model.ConstInt(st.Val)
			if !isK {
				continue
			}
			for _, g := range model.Guards(st.Block()) {
				c, pol := model.StripNot(g.Cond, g.Polarity)
				if !pol {
					continue
				}
				if call, ok := c.(*ssa.Call); ok {
					if fn := call.Common().StaticCallee(); fn != nil && fn.Name() == "EqualFold" {
						if s, isS := model.ConstString(call.Common().Args[1]); isS {
							parserMap["fold:"+strings.ToLower(s)] = k
							break
						}
					}
				}
				if b, ok := c.(*ssa.BinOp); ok && b.Op == token.EQL {
					if s, isS := model.ConstString(b.Y); isS {
						parserMap["exact:"+s] = k
						break
					}
				}
			}
		}
	}
	parserKeys := map[string]bool{}
	for _, name := range []string{"ParseAsc", "ParseSpsPps", "ParseVpsSpsPps"} {
		fn := p.Func("pkg/sdp", name)
		model.EachInstr(fn, func(in ssa.Instruction) {
			if lk, ok := in.(*ssa.Lookup); ok {
				if s, isS := model.ConstString(lk.Index); isS {
					parserKeys[s] = true
				}
			}
		})
	}
	reM := regexp.MustCompile(`^m=(audio|video) \d+ RTP/AVP (%d|\d+)$`)
	reMap := regexp.MustCompile(`^a=rtpmap:(%d|\d+) ([A-Za-z0-9-]+)/(%d|\d+)`)
	reFmtp := regexp.MustCompile(`^a=fmtp:(%d|\d+) (.*)$`)
	nTmpl := 0
	for _, name := range []string{"buildVideoSdpInfo", "buildAudioSdpInfo"} {
		fn := p.Func("pkg/sdp", name)
		for _, ci := range model.AllCalls(fn) {
			callee := ci.Common().StaticCallee()
			if callee == nil || callee.Name() != "Sprintf" {
				continue
			}
			tmpl, isS := model.ConstString(ci.Common().Args[0])
			if !isS || !strings.HasPrefix(tmpl, "m=") {
				continue
			}
			nTmpl++
			// the AvPacketPt this branch is guarded by
			var branchPt int64 = -999
			for _, g := range model.Guards(ci.Block()) {
				c, pol := model.StripNot(g.Cond, g.Polarity)
				if _, k, op, _, ok := constCmp(c); ok && op == token.EQL && pol {
					branchPt = k
					break
				}
			}
			args := sprintfArgs(ci)
			argi := 0
			nextArg := func() (int64, bool) {
				if argi >= len(args) || args[argi] == nil {
					argi++
					return 0, false
				}
				v := args[argi]
				argi++
				return model.ConstInt(v)
			}
			var mPt int64 = -1
			media := ""
			key := fkey(fn, "sdp-template", fmt.Sprintf("pt=%d", branchPt))
			okT := true
			why := ""
			for _, line := range strings.Split(tmpl, "\n") {
				// consume verbs in order; only %d values matter here
				resolve := func(tok string) (int64, bool) {
					if tok == "%d" {
						return nextArg()
					}
					n, err := strconv.ParseInt(tok, 10, 64)
					return n, err == nil
				}
				switch {
				case reM.MatchString(line):
					m := reM.FindStringSubmatch(line)
					media = m[1]
					v, ok := resolve(m[2])
					if !ok {
						okT, why = false, "m= payload type is not a constant"
					}
					mPt = v
				case reMap.MatchString(line):
					m := reMap.FindStringSubmatch(line)
					v, ok := resolve(m[1])
					if !ok || v != mPt {
						okT, why = false, fmt.Sprintf("a=rtpmap payload type %d differs from the m= line's %d", v, mPt)
					}
					enc := m[2]
					var mapped int64
					var found bool
					if media == "audio" {
						mapped, found = parserMap["fold:"+strings.ToLower(enc)]
					} else {
						mapped, found = parserMap["exact:"+enc]
					}
					if !found || mapped != branchPt {
						okT, why = false, fmt.Sprintf("encoding name %q is parsed back as AvPacketPt %d (found=%v), emitted for %d", enc, mapped, found, branchPt)
					}
					if m[3] == "%d" {
						argi++ // clock rate argument
					}
				case reFmtp.MatchString(line):
					m := reFmtp.FindStringSubmatch(line)
					v, ok := resolve(m[1])
					if !ok || v != mPt {
						okT, why = false, fmt.Sprintf("a=fmtp payload type %d differs from the m= line's %d", v, mPt)
					}
					for _, kv := range strings.Split(m[2], ";") {
						kv = strings.TrimSpace(kv)
						eq := strings.Index(kv, "=")
						if eq < 0 {
							continue
						}
						k := kv[:eq]
						if (strings.HasPrefix(k, "sprop-") || k == "config") && !parserKeys[k] {
							okT, why = false, "fmtp key "+k+" is written but never looked up by the parser"
						}
						argi += strings.Count(kv, "%s") + strings.Count(kv, "%d")
					}
				default:
					argi += strings.Count(line, "%d") + strings.Count(line, "%s")
				}
			}
			if mPt != branchPt {
				okT, why = false, fmt.Sprintf("m= payload type %d differs from the branch's AvPacketPt %d", mPt, branchPt)
			}
			r.Check(okT, "C19.R3", key, p.InstrPos(ci), "template agrees with the parser tables", "generated SDP cannot be parsed back to the same codec: "+why)
		}
	}
	if nTmpl < 6 {
		r.Bad("C19.R3", "floor", "", "fewer than 6 SDP media templates found")
	}
	r.Rule("C19.R4", "parameter sets and AudioSpecificConfig kept by the remuxers (Rtmp2RtspRemuxer.sps/pps/vps/asc, Rtmp2MpegtsRemuxer.spspps, AvPacket2RtmpRemuxer.sps/pps/vps) are copies, never slices of the caller's message or packet buffer (same propagation as C01.R7, from the RTMP and the AvPacket entry points)")
	retentionRule(p, r, "C19.R4", []retRoot{{p.Method("pkg/logic", "Group", "OnReadRtmpAvMsg"), 1}, {p.Method("pkg/logic", "Group", "OnAvPacket"), 1}, {p.Method("pkg/logic", "CustomizePubSessionContext", "FeedAvPacket"), 1}}, 60)
	r.Rule("C19.R5", "in avc.parseSpsGamma the scaling-list size is 16 for list indices 0..5 and 64 from index 6 on (ITU-T H.264 7.3.2.1.1: lists 0-5 are 4x4, 6-11 are 8x8): the comparison that selects 64 is false at 5 and true at 6")
	gamma := p.Func("pkg/avc", "parseSpsGamma")
	found := false
	model.EachInstr(gamma, func(in ssa.Instruction) {
		ph, ok := in.(*ssa.Phi)
		if !ok || len(ph.Edges) != 2 {
			return
		}
		k0, ok0 := model.ConstInt(ph.Edges[0])
		k1, ok1 := model.ConstInt(ph.Edges[1])
		if !ok0 || !ok1 || !((k0 == 16 && k1 == 64) || (k0 == 64 && k1 == 16)) {
			return
		}
		// the If that selects between the two constants
		for i, pred := range ph.Block().Preds {
			kk := k0
			if i == 1 {
				kk = k1
			}
			if kk != 64 {
				continue
			}
			// pred is the block that assigns 64; its dominating guard
			for _, g := range model.Guards(pred) {
				_, k, op, right, isCmp := constCmp(g.Cond)
				if !isCmp {
					continue
				}
				found = true
				at5 := cmpAt(op, 5, k, right) == g.Polarity
				at6 := cmpAt(op, 6, k, right) == g.Polarity
				r.Check(!at5 && at6, "C19.R5", fkey(gamma, "scaling-list", "size-boundary"), p.InstrPos(g.If), "64 entries from list 6 on", "the 8x8 scaling lists start at the wrong index: list 6 (or 5) is read with the wrong number of entries, every following SPS field is mis-parsed and the reported dimensions are wrong")
				break
			}
		}
	})
	if !found {
		r.Bad("C19.R5", fkey(gamma, "scaling-list", "floor"), p.Pos(gamma.Pos()), "the 16/64 scaling-list size selection was not found")
	}
	c19r67(p, r)
	c19r8(p, r)
	c19r9(p, r)
	c19r10(p, r)
	w5AscCopy(p, r, "C19.R11")
	w7AscHexLength(p, r, "C19.R13")
	w8ClearAllSets(p, r, "C19.R14")
	w6CtxDefUse(p, r, "C19.R12", 1, p.Func("pkg/hevc", "ParseSps"), p.Func("pkg/hevc", "ParseVps"), p.TryFunc("pkg/hevc", "ParsePps"), p.TryFunc("pkg/avc", "ParseSps"))
}
