package rules

import (
	"fmt"
	"go/types"
	"strings"

	"golang.org/x/tools/go/ssa"

	"lalverif/internal/model"
	"lalverif/internal/report"
)

func init() { register("C15", c15) }

// globalInit returns the constant a package-level int variable is initialised with.
func globalInit(p *model.Prog, pkg, name string) (int64, bool) {
	g := p.Global(pkg, name)
	initFn := p.SPkg(pkg).Func("init")
	var v int64
	found := false
	nStores := 0
	for _, fn := range p.LalFuncs() {
		model.EachInstr(fn, func(in ssa.Instruction) {
			if st, ok := in.(*ssa.Store); ok && st.Addr == ssa.Value(g) {
				nStores++
			}
		})
	}
	model.EachInstr(initFn, func(in ssa.Instruction) {
		if st, ok := in.(*ssa.Store); ok && st.Addr == ssa.Value(g) {
			if k, isK := model.ConstInt(st.Val); isK {
				v, found = k, true
			}
		}
	})
	return v, found && nStores == 0
}

func c15(p *model.Prog, r *report.Result) {
	r.Explanation = "Decides the structural clauses of 'a stalled consumer cannot delay others or corrupt its framing': every subscriber session type is constructed with a positive write-queue size (and a write timeout or coverage by the liveness sweep) before it is announced to the group, and nothing but the RTMP client session selects the blocking queue behaviour (R1); no blocking primitive runs while Group.mutex / ServerManager.mutex may be held (R2 = C20.R3 on the same analysis); each protocol unit a subscriber write method emits is exactly one write-queue submission (R3); the periodic liveness sweep ranges over every connection-backed subscriber set and disposes sessions whose write side is not alive (R4)."
	r.NotDecided = []string{"the numeric delay bound", "what a stalled consumer eventually reads", "relay-push targets (rtmp.ClientSession writes synchronously with a write timeout under Group.mutex: reported for information)"}
	r.Assumptions = []string{"naza connection.Write/Writev with a configured queue and the default full-behaviour enqueue or fail without blocking (read in naza/pkg/connection)"}
	r.Count("functions_analysed", len(p.LalFuncs()))

	// ---------------------------------------------------------------- R1
	r.Rule("C15.R1", "subscriber session types get a positive write queue before they are attached: rtmp.ServerSession via modConnProps (ModWriteChanSize(wChanSize>0), sub: ModWriteTimeoutMs>0) dominating OnNewRtmpSubSession; httpflv/httpts SubSession and rtsp.ServerCommandSession via their connection option literal; WriteChanFullBehaviorBlock is stored only by rtmp.ClientSession")
	optT := p.Named("naza/pkg/connection", "Option")
	_ = optT
	wcs := p.Field("naza/pkg/connection", "Option", "WriteChanSize")
	wto := p.Field("naza/pkg/connection", "Option", "WriteTimeoutMs")
	wfb := p.Field("naza/pkg/connection", "Option", "WriteChanFullBehavior")
	posGlobal := func(pkg, name string) (bool, string) {
		v, ok := globalInit(p, pkg, name)
		return ok && v > 0, fmt.Sprintf("%s.%s=%d (assigned only at init: %v)", pkg, name, v, ok)
	}
	// option literals
	type optSpec struct {
		ctor    *ssa.Function
		needTO  bool
		sizeVar [2]string
		toVar   [2]string
	}
	specs := []optSpec{
		{p.Func("pkg/httpflv", "NewSubSession"), true, [2]string{"pkg/httpflv", "SubSessionWriteChanSize"}, [2]string{"pkg/httpflv", "SubSessionWriteTimeoutMs"}},
		{p.Func("pkg/httpts", "NewSubSession"), true, [2]string{"pkg/httpts", "SubSessionWriteChanSize"}, [2]string{"pkg/httpts", "SubSessionWriteTimeoutMs"}},
		{p.Func("pkg/rtsp", "NewServerCommandSession"), false, [2]string{"", ""}, [2]string{"", ""}},
	}
	for _, sp := range specs {
		okSize, okTO := false, false
		detail := ""
		optFns := model.WithAnons(sp.ctor)
		// a named function of the package handed on as the option callback counts like a closure
		model.EachInstr(sp.ctor, func(in ssa.Instruction) {
			for _, op := range in.Operands(nil) {
				if *op == nil {
					continue
				}
				if f, isF := (*op).(*ssa.Function); isF && f.Pkg == sp.ctor.Pkg && len(f.Blocks) > 0 {
					if ci, isCall := in.(ssa.CallInstruction); isCall && ci.Common().Value == *op {
						continue // called, not handed on
					}
					optFns = append(optFns, f)
				}
			}
		})
		for _, fn := range optFns {
			for _, st := range model.FieldStores(fn, wcs) {
				if k, isK := model.ConstInt(st.Val); isK && k > 0 {
					okSize = true
					detail += fmt.Sprintf("WriteChanSize=%d ", k)
				} else if g, isG := loadOfGlobal(st.Val); isG && g.Pkg == sp.ctor.Pkg {
					pkgShort := strings.TrimPrefix(g.Pkg.Pkg.Path(), model.LalPath+"/")
					ok, d := posGlobal(pkgShort, g.Name())
					okSize = ok
					detail += d + " "
				}
			}
			for _, st := range model.FieldStores(fn, wto) {
				if g, isG := loadOfGlobal(st.Val); isG && g.Pkg == sp.ctor.Pkg {
					pkgShort := strings.TrimPrefix(g.Pkg.Pkg.Path(), model.LalPath+"/")
					ok, d := posGlobal(pkgShort, g.Name())
					okTO = ok
					detail += d + " "
				}
			}
		}
		r.Check(okSize && (okTO || !sp.needTO), "C15.R1", fkey(sp.ctor, "queue", "option-literal"), p.Pos(sp.ctor.Pos()), "queue configured: "+detail, "subscriber session constructed without a positive write queue (and write timeout): its writes run synchronously under Group.mutex, a stalled consumer stalls the stream")
	}
	// rtmp server session
	mcp := p.Method("pkg/rtmp", "ServerSession", "modConnProps")
	connT := p.Named("naza/pkg/connection", "Connection")
	cm := func(m string) *types.Func {
		o, _, _ := types.LookupFieldOrMethod(connT, true, connT.Obj().Pkg(), m)
		return o.(*types.Func)
	}
	okQ := false
	for _, ci := range model.CallsTo(mcp, cm("ModWriteChanSize")) {
		if g, isG := loadOfGlobal(ci.Common().Args[0]); isG && g == p.Global("pkg/rtmp", "wChanSize") {
			if ok, _ := posGlobal("pkg/rtmp", "wChanSize"); ok {
				all := true
				for _, ret := range model.ReturnsOf(mcp) {
					if !model.InstrDominates(ci, ret) {
						all = false
					}
				}
				okQ = all
			}
		}
	}
	okT := false
	for _, ci := range model.CallsTo(mcp, cm("ModWriteTimeoutMs")) {
		if g, isG := loadOfGlobal(ci.Common().Args[0]); isG && g == p.Global("pkg/rtmp", "serverSessionWriteAvTimeoutMs") {
			okT, _ = posGlobal("pkg/rtmp", "serverSessionWriteAvTimeoutMs")
		}
	}
	r.Check(okQ && okT, "C15.R1", fkey(mcp, "queue", "modConnProps"), p.Pos(mcp.Pos()), "ModWriteChanSize(wChanSize>0) on every path, ModWriteTimeoutMs(>0) for subscribers", "rtmp.ServerSession no longer gets a positive write queue / write timeout")
	doPlay := p.Method("pkg/rtmp", "ServerSession", "doPlay")
	okDom, domPos := connPropsBeforeObserver(p, "doPlay", "OnNewRtmpSubSession")
	r.Check(okDom, "C15.R1", fkey(doPlay, "queue", "before-attach"), domPos, "the queue is configured before the session is announced to the group", "an RTMP subscriber is attached to the group before its write queue exists")
	// who selects Block
	for _, fn := range p.LalFuncs() {
		for _, st := range model.FieldStores(fn, wfb) {
			tf := topFn(fn)
			ok := tf.Signature.Recv() != nil && strings.Contains(tf.Signature.Recv().Type().String(), "rtmp.ClientSession")
			r.Check(ok, "C15.R1", fkey(fn, "queue", "full-behaviour"), p.InstrPos(st), "blocking full-behaviour only in rtmp.ClientSession", "a session other than the RTMP client selects WriteChanFullBehaviorBlock: a full queue blocks the fan-out under Group.mutex")
		}
	}

	// ---------------------------------------------------------------- R2
	r.Rule("C15.R2", "no blocking primitive while Group.mutex or ServerManager.mutex may be held (same analysis and reviewed table as C20.R3)")
	ovs := callbackOverrides(p)
	var kept []cbOverride
	okOwner := map[*types.Var]bool{}
	seenOwner := map[*types.Var]bool{}
	for _, ov := range ovs {
		if ov.kind == "owned" {
			if !seenOwner[ov.owner] {
				seenOwner[ov.owner] = true
				okOwner[ov.owner], _ = verifyOwned(p, ov.owner)
			}
			if !okOwner[ov.owner] {
				continue
			}
		}
		kept = append(kept, ov)
	}
	may := runLockAnalysis(p, false, kept)
	n := blockingUnderLock(p, may, r, "C15.R2")
	r.Count("blocking_sites_under_lock", n)

	// ---------------------------------------------------------------- R3
	r.Rule("C15.R3", "every subscriber write method reachable from the fan-out submits at most one unit to the connection per call on any path")
	cw, cwv := cm("Write"), cm("Writev")
	memo := map[*ssa.Function]int{}
	for _, fn := range []*ssa.Function{
		p.Method("pkg/rtmp", "ServerSession", "Write"), p.Method("pkg/rtmp", "ServerSession", "Writev"),
		p.Method("pkg/base", "BasicHttpSubSession", "Write"),
		p.Method("pkg/httpflv", "SubSession", "Write"), p.Method("pkg/httpts", "SubSession", "Write"),
		p.Method("pkg/rtsp", "ServerCommandSession", "WriteInterleavedPacket"),
	} {
		k := maxSubmissions(p, fn, cw, cwv, 0, memo)
		r.Check(k == 1, "C15.R3", fkey(fn, "unit", "one-submission"), p.Pos(fn.Pos()), "one queue submission per unit", fmt.Sprintf("%d queue submissions per unit: a queue that fills between them leaves a partial protocol unit on the wire", k))
	}

	// ---------------------------------------------------------------- R4
	r.Rule("C15.R4", "Group.disposeInactiveSessions ranges over every Group field of type map[*T]struct{} whose T has IsAlive() (hls exempt: own expiry in hls.ServerHandler), calls IsAlive on the element and Dispose on the false edge of writeAlive; it is called from Group.Tick")
	dis := p.Method("pkg/logic", "Group", "disposeInactiveSessions")
	groupT := p.Named("pkg/logic", "Group")
	st := groupT.Underlying().(*types.Struct)
	nSets := 0
	for i := 0; i < st.NumFields(); i++ {
		f := st.Field(i)
		mt, ok := f.Type().Underlying().(*types.Map)
		if !ok {
			continue
		}
		pt, ok := mt.Key().(*types.Pointer)
		if !ok {
			continue
		}
		obj, _, _ := types.LookupFieldOrMethod(pt, true, f.Pkg(), "IsAlive")
		if obj == nil {
			continue
		}
		if f.Name() == "hlsSubSessionSet" {
			r.Trivial("C15.R4", "Group|sweep|"+f.Name(), "", "exempt: HLS sessions have no connection; expiry is handled by hls.ServerHandler.clearExpireSession")
			continue
		}
		nSets++
		// sweeps(fn, isElem): fn calls Dispose on a receiver satisfying isElem, on the false edge
		// of the second result of IsAlive() of the same receiver
		sweeps := func(fn *ssa.Function, isElem func(ssa.Value) bool) bool {
			found := false
			model.EachInstr(fn, func(in ssa.Instruction) {
				ci, isC := in.(ssa.CallInstruction)
				if !isC {
					return
				}
				var name string
				if o := model.CalleeObj(ci.Common()); o != nil {
					name = o.Name()
				} else if ci.Common().IsInvoke() {
					name = ci.Common().Method.Name()
				}
				if name != "Dispose" {
					return
				}
				recv := receiver(ci.Common())
				if !isElem(recv) {
					return
				}
				if model.GuardedBy(ci, func(c ssa.Value, pol bool) bool {
					ex, isEx := c.(*ssa.Extract)
					if !isEx || ex.Index != 1 || pol {
						return false
					}
					call, isCall := ex.Tuple.(*ssa.Call)
					if !isCall {
						return false
					}
					n2 := ""
					if oo := model.CalleeObj(call.Common()); oo != nil {
						n2 = oo.Name()
					} else if call.Common().IsInvoke() {
						n2 = call.Common().Method.Name()
					}
					return n2 == "IsAlive" && receiver(call.Common()) == recv
				}) {
					found = true
				}
			})
			return found
		}
		fromSet := func(v ssa.Value) bool {
			if mi, isMI := v.(*ssa.MakeInterface); isMI {
				v = mi.X
			}
			return rangedField(iterOrigin(v)) == f
		}
		ok2 := sweeps(dis, fromSet)
		if !ok2 {
			// the test-and-dispose may be a same-package helper given the element
			for _, ci := range model.AllCalls(dis) {
				ce := ci.Common().StaticCallee()
				if ce == nil || ce.Blocks == nil || ce.Pkg != dis.Pkg || len(ce.Params) != len(ci.Common().Args) {
					continue
				}
				for k, a := range ci.Common().Args {
					if !fromSet(a) {
						continue
					}
					prm := ce.Params[k]
					if sweeps(ce, func(v ssa.Value) bool { return v == ssa.Value(prm) }) {
						ok2 = true
					}
				}
			}
		}
		r.Check(ok2, "C15.R4", "Group|sweep|"+f.Name(), p.Pos(dis.Pos()), "swept: Dispose on !writeAlive", "subscriber set "+f.Name()+" is not covered by the liveness sweep: a stalled consumer of that kind is never disconnected")
	}
	if nSets < 4 {
		r.Bad("C15.R4", "floor", "", "fewer than 4 connection-backed subscriber sets found")
	}
	tick := p.Method("pkg/logic", "Group", "Tick")
	r.Check(len(model.CallsTo(tick, p.MethodObj("pkg/logic", "Group", "disposeInactiveSessions"))) == 1, "C15.R4", fkey(tick, "sweep", "called"), p.Pos(tick.Pos()), "the sweep runs on every tick", "Group.Tick no longer runs the liveness sweep")
	c15r4(p, r)
	c15r5(p, r)
	w5SweepReached(p, r, "C15.R6")
	w5PlayConnProps(p, r, "C15.R7")
	w6AliveSnapshot(p, r, "C15.R8")
	w9SubWriteTimeout(p, r, "C15.R9")
}

func loadOfGlobal(v ssa.Value) (*ssa.Global, bool) {
	v = model.Unwrap(v)
	if u, ok := v.(*ssa.UnOp); ok {
		if g, ok := u.X.(*ssa.Global); ok {
			return g, true
		}
	}
	return nil, false
}
