package rules

import (
	"go/constant"
	"go/token"
	"go/types"

	"golang.org/x/tools/go/ssa"
)

// Path-sensitive constant propagation over one function's SSA (no execution: an abstract
// interpretation in the flat constant lattice, split at branches whose condition is unknown).
// A rule seeds some values (e.g. len(message) = 0), and asks what holds on every path to a
// return. Integer values are int64 (Go wrap-around is not modelled: results are used only for
// small seeds), booleans 0/1. Everything not derivable from the seeds is unknown.

type cEnv map[ssa.Value]int64

type cPath struct {
	env    cEnv
	counts map[string]int // rule-defined event counters
	events []string       // rule-defined trace (observe hook), in execution order
	ret    *ssa.Return    // nil when the path ended in a panic
}

type cEval struct {
	fn *ssa.Function
	// seed gives the value of v when the rule fixes it (parameters' lengths, parameters)
	seed func(v ssa.Value) (int64, bool)
	// event names an instruction the rule counts per path ("" = not counted)
	event func(in ssa.Instruction) string
	// observe may return a trace entry for an instruction, using the values known on this path
	observe func(in ssa.Instruction, val func(ssa.Value) (int64, bool)) string
	// maxVisits bounds the visits of one block on one path; exceeded = undecided
	maxVisits int
	maxPaths  int

	// lenOf gives len(x) for values the rule fixes by length (parameters); used for len calls here
	// and, through the call, inside same-package helpers that receive x as an argument
	lenOf func(x ssa.Value) (int64, bool)
	depth int // nesting of helper evaluation

	paths     []cPath
	undecided string
}

func (e *cEval) val(env cEnv, v ssa.Value) (int64, bool) {
	if x, ok := env[v]; ok {
		return x, true
	}
	if c, ok := v.(*ssa.Const); ok && c.Value != nil {
		switch c.Value.Kind() {
		case constant.Int:
			if i, exact := constant.Int64Val(c.Value); exact {
				return i, true
			}
		case constant.Bool:
			if constant.BoolVal(c.Value) {
				return 1, true
			}
			return 0, true
		}
		return 0, false
	}
	if e.seed != nil {
		if x, ok := e.seed(v); ok {
			return x, true
		}
	}
	return 0, false
}

func b2i(b bool) int64 {
	if b {
		return 1
	}
	return 0
}

func (e *cEval) step(env cEnv, in ssa.Instruction) {
	switch x := in.(type) {
	case *ssa.BinOp:
		a, okA := e.val(env, x.X)
		b, okB := e.val(env, x.Y)
		isInt := false
		if bt, ok := x.X.Type().Underlying().(*types.Basic); ok && bt.Info()&types.IsInteger != 0 {
			isInt = true
		}
		switch {
		case okA && okB:
			switch x.Op {
			case token.ADD:
				env[x] = a + b
			case token.SUB:
				env[x] = a - b
			case token.MUL:
				env[x] = a * b
			case token.QUO:
				if b != 0 {
					env[x] = a / b
				}
			case token.REM:
				if b != 0 {
					env[x] = a % b
				}
			case token.EQL:
				env[x] = b2i(a == b)
			case token.NEQ:
				env[x] = b2i(a != b)
			case token.LSS:
				env[x] = b2i(a < b)
			case token.LEQ:
				env[x] = b2i(a <= b)
			case token.GTR:
				env[x] = b2i(a > b)
			case token.GEQ:
				env[x] = b2i(a >= b)
			case token.AND:
				env[x] = a & b
			case token.OR:
				env[x] = a | b
			case token.SHL:
				if b >= 0 && b < 63 {
					env[x] = a << uint(b)
				}
			case token.SHR:
				if b >= 0 && b < 63 && a >= 0 {
					env[x] = a >> uint(b)
				}
			}
		case isInt && okA && a == 0 && (x.Op == token.QUO || x.Op == token.REM || x.Op == token.MUL || x.Op == token.AND || x.Op == token.SHL || x.Op == token.SHR):
			// 0/x, 0%x (x != 0 or the operation panics, which ends the path anyway), 0*x, 0&x, 0<<x, 0>>x
			env[x] = 0
		case isInt && okB && b == 0 && (x.Op == token.MUL || x.Op == token.AND):
			env[x] = 0
		case isInt && okB && b == 0 && (x.Op == token.ADD || x.Op == token.SUB || x.Op == token.OR || x.Op == token.SHL || x.Op == token.SHR):
			if okA {
				env[x] = a
			}
		}
	case *ssa.UnOp:
		if a, ok := e.val(env, x.X); ok {
			switch x.Op {
			case token.NOT:
				env[x] = 1 - a
			case token.SUB:
				env[x] = -a
			}
		}
	case *ssa.Convert:
		if bt, ok := x.Type().Underlying().(*types.Basic); ok && bt.Info()&types.IsInteger != 0 {
			if a, ok := e.val(env, x.X); ok && a >= 0 && a < 1<<31 {
				env[x] = a
			}
		}
	case *ssa.ChangeType:
		if a, ok := e.val(env, x.X); ok {
			env[x] = a
		}
	case *ssa.Call:
		if b, ok := x.Call.Value.(*ssa.Builtin); ok && b.Name() == "len" && e.lenOf != nil {
			if n, known := e.lenOf(x.Call.Args[0]); known {
				env[x] = n
				return
			}
		}
		// a helper of the same package with one basic result: evaluated with the caller's values for
		// its parameters (and their lengths); the call has a value when every return agrees
		if callee := x.Call.StaticCallee(); callee != nil && callee.Pkg != nil && callee.Pkg == e.fn.Pkg && len(callee.Blocks) > 0 && e.depth < 2 && callee != e.fn {
			if _, isBasic := x.Type().Underlying().(*types.Basic); isBasic && len(callee.Params) == len(x.Call.Args) {
				args := x.Call.Args
				paramIdx := func(v ssa.Value) int {
					for k, q := range callee.Params {
						if ssa.Value(q) == v {
							return k
						}
					}
					return -1
				}
				sub := &cEval{fn: callee, maxVisits: e.maxVisits, maxPaths: 512, depth: e.depth + 1}
				sub.seed = func(v ssa.Value) (int64, bool) {
					if k := paramIdx(v); k >= 0 {
						return e.val(env, args[k])
					}
					if e.seed != nil {
						return e.seed(v)
					}
					return 0, false
				}
				sub.lenOf = func(v ssa.Value) (int64, bool) {
					if k := paramIdx(v); k >= 0 && e.lenOf != nil {
						return e.lenOf(args[k])
					}
					return 0, false
				}
				sub.run()
				if sub.undecided == "" {
					have, val, same := false, int64(0), true
					for _, pa := range sub.paths {
						if pa.ret == nil || len(pa.ret.Results) != 1 {
							continue
						}
						rv, known := sub.val(pa.env, pa.ret.Results[0])
						if !known {
							same = false
							break
						}
						if have && rv != val {
							same = false
							break
						}
						have, val = true, rv
					}
					if have && same {
						env[x] = val
						return
					}
				}
			}
		}
		if b, ok := x.Call.Value.(*ssa.Builtin); ok && (b.Name() == "len" || b.Name() == "cap") {
			// len of a slice expression with known bounds
			if sl, ok := x.Call.Args[0].(*ssa.Slice); ok && b.Name() == "len" {
				lo, okL := int64(0), true
				if sl.Low != nil {
					lo, okL = e.val(env, sl.Low)
				}
				if sl.High != nil {
					if hi, okH := e.val(env, sl.High); okH && okL {
						env[x] = hi - lo
					}
				}
			}
		}
	}
}

// run enumerates the paths from the entry block.
func (e *cEval) run() {
	if e.maxVisits == 0 {
		e.maxVisits = 40
	}
	if e.maxPaths == 0 {
		e.maxPaths = 4096
	}
	type frame struct {
		b      *ssa.BasicBlock
		pred   *ssa.BasicBlock
		env    cEnv
		counts map[string]int
		visits map[*ssa.BasicBlock]int
		events []string
	}
	cp := func(m cEnv) cEnv {
		n := make(cEnv, len(m))
		for k, v := range m {
			n[k] = v
		}
		return n
	}
	cpi := func(m map[string]int) map[string]int {
		n := map[string]int{}
		for k, v := range m {
			n[k] = v
		}
		return n
	}
	cpv := func(m map[*ssa.BasicBlock]int) map[*ssa.BasicBlock]int {
		n := map[*ssa.BasicBlock]int{}
		for k, v := range m {
			n[k] = v
		}
		return n
	}
	work := []frame{{b: e.fn.Blocks[0], env: cEnv{}, counts: map[string]int{}, visits: map[*ssa.BasicBlock]int{}}}
	cpe := func(ev []string) []string { return append([]string(nil), ev...) }
	for len(work) > 0 {
		f := work[len(work)-1]
		work = work[:len(work)-1]
		if len(e.paths) > e.maxPaths {
			e.undecided = "more than the bounded number of paths"
			return
		}
		f.visits[f.b]++
		if f.visits[f.b] > e.maxVisits {
			e.undecided = "a loop whose trip count the seeds do not determine: block " + f.b.String()
			return
		}
		// phis first, all read from the incoming state
		newPhi := map[ssa.Value]int64{}
		var phis []*ssa.Phi
		for _, in := range f.b.Instrs {
			ph, ok := in.(*ssa.Phi)
			if !ok {
				break
			}
			phis = append(phis, ph)
			for i, pr := range f.b.Preds {
				if pr == f.pred {
					if v, ok := e.val(f.env, ph.Edges[i]); ok {
						newPhi[ph] = v
					}
					break
				}
			}
		}
		for _, ph := range phis {
			if v, ok := newPhi[ph]; ok {
				f.env[ph] = v
			} else {
				delete(f.env, ph)
			}
		}
		ended := false
		for _, in := range f.b.Instrs {
			if _, isPhi := in.(*ssa.Phi); isPhi {
				continue
			}
			if e.event != nil {
				if n := e.event(in); n != "" {
					f.counts[n]++
				}
			}
			if e.observe != nil {
				env := f.env
				if t := e.observe(in, func(v ssa.Value) (int64, bool) { return e.val(env, v) }); t != "" {
					f.events = append(f.events, t)
				}
			}
			switch x := in.(type) {
			case *ssa.Return:
				e.paths = append(e.paths, cPath{env: f.env, counts: f.counts, events: f.events, ret: x})
				ended = true
			case *ssa.Panic:
				e.paths = append(e.paths, cPath{env: f.env, counts: f.counts, events: f.events})
				ended = true
			case *ssa.If:
				c, ok := e.val(f.env, x.Cond)
				switch {
				case ok && c != 0:
					work = append(work, frame{f.b.Succs[0], f.b, f.env, f.counts, f.visits, f.events})
				case ok:
					work = append(work, frame{f.b.Succs[1], f.b, f.env, f.counts, f.visits, f.events})
				default:
					// unknown: both, and remember what the edge established for a comparison result
					e1, e0 := cp(f.env), cp(f.env)
					e1[x.Cond], e0[x.Cond] = 1, 0
					work = append(work, frame{f.b.Succs[0], f.b, e1, cpi(f.counts), cpv(f.visits), cpe(f.events)})
					work = append(work, frame{f.b.Succs[1], f.b, e0, cpi(f.counts), cpv(f.visits), cpe(f.events)})
				}
				ended = true
			case *ssa.Jump:
				work = append(work, frame{f.b.Succs[0], f.b, f.env, f.counts, f.visits, f.events})
				ended = true
			default:
				e.step(f.env, in)
			}
			if ended {
				break
			}
		}
	}
}
