package rules

import (
	"fmt"
	"go/token"
	"go/types"

	"golang.org/x/tools/go/ssa"

	"lalverif/internal/model"
	"lalverif/internal/report"
)

func init() { register("C12", c12) }

// flowItem: bits srcMask (in source bit positions) of src[Idx] are present in the value,
// shifted right by Shift (negative = left).
type flowItem struct {
	Idx     int64
	SrcMask uint64
	Shift   int
}

// bitFlow computes which bits of which bytes of the byte slice `src` flow into value v.
// Phi operands whose predecessor block is rejected by keepPred are ignored (branch
// sensitivity). The result maps byte index -> union of source-bit masks.
func bitFlow(v ssa.Value, src ssa.Value, keepPred func(*ssa.BasicBlock) bool) map[int64]uint64 {
	return bitFlowBound(v, src, keepPred, nil)
}

// bitFlowBound: as bitFlow, for a value inside a helper whose parameters are bound to the
// caller's argument values (bind): a parameter continues in the caller's value.
func bitFlowBound(v ssa.Value, src ssa.Value, keepPred func(*ssa.BasicBlock) bool, bind map[*ssa.Parameter]ssa.Value) map[int64]uint64 {
	seen := map[ssa.Value]bool{}
	var rec func(x ssa.Value, d int) []flowItem
	rec = func(x ssa.Value, d int) []flowItem {
		if d > 60 || seen[x] {
			return nil
		}
		seen[x] = true
		defer func() { seen[x] = false }()
		switch y := x.(type) {
		case *ssa.Parameter:
			if a, ok := bind[y]; ok {
				return rec(a, d+1)
			}
		case *ssa.UnOp:
			if y.Op == token.MUL {
				if ia, ok := y.X.(*ssa.IndexAddr); ok {
					base := ia.X
					if prm, isP := base.(*ssa.Parameter); isP {
						if a, bound := bind[prm]; bound {
							base = a
						}
					}
					if sameRoot(base, src) {
						if i, isK := model.ConstInt(ia.Index); isK {
							return []flowItem{{i, 0xff, 0}}
						}
					}
				}
			}
		case *ssa.Convert:
			return rec(y.X, d+1)
		case *ssa.Phi:
			var out []flowItem
			for i, e := range y.Edges {
				if keepPred != nil && !keepPred(y.Block().Preds[i]) {
					continue
				}
				out = append(out, rec(e, d+1)...)
			}
			return out
		case *ssa.BinOp:
			kY, isKY := model.ConstInt(y.Y)
			switch y.Op {
			case token.AND:
				if isKY {
					var out []flowItem
					for _, it := range rec(y.X, d+1) {
						var m uint64
						if it.Shift >= 0 {
							m = uint64(kY) << uint(it.Shift)
						} else {
							m = uint64(kY) >> uint(-it.Shift)
						}
						if nm := it.SrcMask & m; nm != 0 {
							out = append(out, flowItem{it.Idx, nm, it.Shift})
						}
					}
					return out
				}
				return append(rec(y.X, d+1), rec(y.Y, d+1)...)
			case token.OR, token.XOR, token.ADD:
				return append(rec(y.X, d+1), rec(y.Y, d+1)...)
			case token.SHR:
				if isKY {
					var out []flowItem
					for _, it := range rec(y.X, d+1) {
						sh := it.Shift + int(kY)
						m := it.SrcMask
						if sh > 0 {
							m &^= (uint64(1) << uint(sh)) - 1
						}
						if m != 0 {
							out = append(out, flowItem{it.Idx, m, sh})
						}
					}
					return out
				}
			case token.SHL:
				if isKY {
					var out []flowItem
					for _, it := range rec(y.X, d+1) {
						sh := it.Shift - int(kY)
						m := it.SrcMask
						if sh < 0 { // bits pushed beyond bit 7 of a byte-sized value are lost
							m &= 0xff >> uint(-sh)
						}
						if m != 0 {
							out = append(out, flowItem{it.Idx, m, sh})
						}
					}
					return out
				}
			}
		}
		return nil
	}
	out := map[int64]uint64{}
	for _, it := range rec(v, 0) {
		out[it.Idx] |= it.SrcMask
	}
	return out
}

func c12(p *model.Prog, r *report.Result) {
	r.Explanation = "Narrow: decides a necessary condition of lossless FU fragmentation in RtpPackerPayloadAvcHevc.PackNal — the NAL header bytes that are skipped from the payload (nal[0] for H.264; nal[0] and nal[1] for H.265) flow, bit for bit, into the bytes stored in the FU indicator / payload header and FU header of every fragment (R1); the start bit is set only on the first fragment and the end bit only on the last (R2); a NAL unit that fits is copied whole (R3)."
	r.NotDecided = []string{"fragment sizes against the payload limit", "marker bit, sequence numbers, timestamps (RtpPacker.Pack values)", "reordering / duplicate / wrap-around behaviour of the depacketiser", "AAC/G.711/Opus packetisation"}
	fn := p.Method("pkg/rtprtcp", "RtpPackerPayloadAvcHevc", "PackNal")
	r.Count("functions_analysed", 1)
	nal := fn.Params[1]
	payloadType := p.Field("pkg/rtprtcp", "RtpPackerPayloadAvcHevc", "payloadType")
	avcPt := constU(p, "pkg/base", "AvPacketPtAvc")

	// branch classification of a block: guarded by payloadType==Avc (true/false) or neither
	branchOf := func(b *ssa.BasicBlock) (isAvc bool, known bool) {
		for _, g := range append(model.Guards(b), selfGuard(b)...) {
			c, pol := model.StripNot(g.Cond, g.Polarity)
			x, k, op, _, ok := constCmp(c)
			if ok && op == token.EQL && k == avcPt && model.IsLoadOfField(x, payloadType) {
				return pol, true
			}
			if ok && op == token.NEQ && k == avcPt && model.IsLoadOfField(x, payloadType) {
				return !pol, true
			}
		}
		return false, false
	}

	// ---------------------------------------------------------------- R1
	r.Rule("C12.R1", "for each codec branch of PackNal and each fragment kind (non-last / last), the union of bits of nal[0] (and nal[1] for H.265) flowing into the stored header bytes item[0..headerSize-1] covers 0x7F of nal[0] for H.264, and 0x7F of nal[0] plus 0xFF of nal[1] for H.265")
	type hdrStore struct {
		st   *ssa.Store
		idx  int64
		bind map[*ssa.Parameter]ssa.Value // nil: the store is in PackNal itself
		site *ssa.BasicBlock              // the call site's block when the store is in a helper
	}
	groups := map[string][]hdrStore{} // key: codec|alloc-site
	add := func(codecKnown, isAvc bool, mk *ssa.MakeSlice, hs hdrStore) {
		if !codecKnown {
			return
		}
		codec := "hevc"
		if isAvc {
			codec = "avc"
		}
		k := fmt.Sprintf("%s|%s", codec, p.InstrPos(mk))
		groups[k] = append(groups[k], hs)
	}
	model.EachInstr(fn, func(in ssa.Instruction) {
		switch x := in.(type) {
		case *ssa.Store:
			ia, ok := x.Addr.(*ssa.IndexAddr)
			if !ok {
				return
			}
			mk, ok := ia.X.(*ssa.MakeSlice)
			if !ok {
				return
			}
			i, isK := model.ConstInt(ia.Index)
			if !isK {
				return
			}
			isAvc, known := branchOf(x.Block())
			add(known, isAvc, mk, hdrStore{st: x, idx: i})
		case *ssa.Call:
			// a same-package helper given the fragment buffer: its constant-index stores into that
			// parameter are header stores of the buffer, with the helper's parameters bound to the
			// arguments of this call
			ce := x.Call.StaticCallee()
			if ce == nil || ce.Blocks == nil || ce.Pkg != fn.Pkg || len(ce.Params) != len(x.Call.Args) {
				return
			}
			bind := map[*ssa.Parameter]ssa.Value{}
			var bufs []struct {
				prm *ssa.Parameter
				mk  *ssa.MakeSlice
			}
			for k, a := range x.Call.Args {
				bind[ce.Params[k]] = a
				if mk, isMk := a.(*ssa.MakeSlice); isMk {
					bufs = append(bufs, struct {
						prm *ssa.Parameter
						mk  *ssa.MakeSlice
					}{ce.Params[k], mk})
				}
			}
			if len(bufs) == 0 {
				return
			}
			model.EachInstr(ce, func(in2 ssa.Instruction) {
				st, ok := in2.(*ssa.Store)
				if !ok {
					return
				}
				ia, ok := st.Addr.(*ssa.IndexAddr)
				if !ok {
					return
				}
				i, isK := model.ConstInt(ia.Index)
				if !isK {
					return
				}
				for _, bf := range bufs {
					if ia.X != ssa.Value(bf.prm) {
						continue
					}
					isAvc, known := branchOf(st.Block())
					if !known {
						isAvc, known = branchOf(x.Block())
					}
					add(known, isAvc, bf.mk, hdrStore{st: st, idx: i, bind: bind, site: x.Block()})
				}
			})
		}
	})
	nGroups := 0
	for key, sts := range groups {
		nGroups++
		isAvc := key[:3] == "avc"
		keep := func(pred *ssa.BasicBlock) bool {
			a, known := branchOf(pred)
			return !known || a == isAvc
		}
		cover := map[int64]uint64{}
		for _, hs := range sts {
			fl := bitFlowBound(hs.st.Val, nal, keep, hs.bind)
			for i, m := range fl {
				cover[i] |= m
			}
		}
		need := map[int64]uint64{0: 0x7f}
		if !isAvc {
			need[1] = 0xff
		}
		ok := true
		for i, m := range need {
			if cover[i]&m != m {
				ok = false
			}
		}
		r.Check(ok, "C12.R1", fkey(fn, "fu-header", key[:4]), p.InstrPos(sts[0].st),
			fmt.Sprintf("header bytes carry nal[0]&%#x nal[1]&%#x", cover[0], cover[1]),
			fmt.Sprintf("the fragment header only carries nal[0]&%#x nal[1]&%#x of the skipped NAL header bytes (needs %#x / %#x): layer id / temporal id / NRI of the original unit cannot be recovered", cover[0], cover[1], need[0], need[1]))
	}
	if nGroups < 4 {
		r.Bad("C12.R1", fkey(fn, "fu-header", "floor"), p.Pos(fn.Pos()), "expected header stores for 2 codecs x 2 fragment kinds")
	}

	// ---------------------------------------------------------------- R2
	r.Rule("C12.R2", "the start bit (|= 0x80 at the S/E position) is stored only under isFirstFlag, which is cleared right there; the end bit (| 0x40) is stored only in the final-fragment region that leaves the loop")
	var nStart, nEnd int
	loopHeaderFirst := func(x ssa.Instruction) bool {
		for _, l := range model.Loops(fn) {
			if x.Block() == l.Header && x == l.Header.Instrs[0] {
				return true
			}
		}
		return false
	}
	orConst := func(v ssa.Value) (int64, bool) {
		b, ok := model.Unwrap(v).(*ssa.BinOp)
		if !ok || b.Op != token.OR {
			return 0, false
		}
		return model.ConstInt(b.Y)
	}
	// isEndMark: the instruction puts the end bit into a fragment buffer (a store of `.. | 0x40`,
	// or a same-package helper call given `.. | 0x40`)
	isEndMark := func(in ssa.Instruction) bool {
		switch x := in.(type) {
		case *ssa.Store:
			if _, isIA := x.Addr.(*ssa.IndexAddr); !isIA {
				return false
			}
			k, ok := orConst(x.Val)
			return ok && k == 0x40
		case *ssa.Call:
			if ce := x.Call.StaticCallee(); ce == nil || ce.Pkg != fn.Pkg {
				return false
			}
			for _, a := range x.Call.Args {
				if k, ok := orConst(a); ok && k == 0x40 {
					return true
				}
			}
		}
		return false
	}
	model.EachInstr(fn, func(in ssa.Instruction) {
		if st, ok := in.(*ssa.Store); ok {
			if k, isK := orConst(st.Val); isK && k == 0x80 {
				nStart++
				ok := model.GuardedBy(st, func(c ssa.Value, pol bool) bool {
					ph, isPhi := c.(*ssa.Phi)
					return isPhi && ph.Comment == "isFirstFlag" && pol
				})
				r.Check(ok, "C12.R2", fkey(fn, "fu-bits", "start"), p.InstrPos(st), "start bit only while isFirstFlag", "the start bit can be set on a fragment that is not the first")
			}
		}
		if isEndMark(in) {
			nEnd++
			// the block must not lead back to the loop header: it is followed by break/return
			back := model.PathQuery{From: in, Target: loopHeaderFirst}.Find(fn)
			r.Check(back == nil, "C12.R2", fkey(fn, "fu-bits", "end"), p.InstrPos(in), "end bit only on the fragment that leaves the loop", "the end bit can be set on a fragment that is followed by more fragments")
		}
	})
	// every fragment buffer allocated on the way out of the loop (the final fragment) receives
	// the end bit on every path to the return, whatever the codec
	nFinal := 0
	model.EachInstr(fn, func(in ssa.Instruction) {
		mk, ok := in.(*ssa.MakeSlice)
		if !ok {
			return
		}
		afterHeader := false
		for _, l := range model.Loops(fn) {
			if l.Header.Dominates(mk.Block()) {
				afterHeader = true
			}
		}
		if !afterHeader {
			return
		}
		if (model.PathQuery{From: mk, Target: loopHeaderFirst}).Find(fn) != nil {
			return
		}
		nFinal++
		miss := model.PathQuery{From: mk, Stop: isEndMark, Target: func(x ssa.Instruction) bool {
			_, isRet := x.(*ssa.Return)
			return isRet
		}}.Find(fn)
		r.Check(miss == nil, "C12.R2", fkey(fn, "fu-bits", "end-on-final"), p.InstrPos(mk), "the final fragment gets the end bit on every path", "a path from the allocation of the final fragment to the return sets no end bit: the depacketiser never sees the unit complete")
	})
	if nStart < 1 || nEnd < 1 || nFinal < 1 {
		r.Bad("C12.R2", fkey(fn, "fu-bits", "floor"), p.Pos(fn.Pos()), "start/end bit stores not found")
	}

	// ---------------------------------------------------------------- R3
	r.Rule("C12.R3", "when len(nal) <= maxSize PackNal emits one packet that is a copy of the whole unit")
	okSingle := false
	for _, b := range fn.Blocks {
		iff, ok := b.Instrs[len(b.Instrs)-1].(*ssa.If)
		if !ok {
			continue
		}
		cmp, ok := iff.Cond.(*ssa.BinOp)
		if !ok || cmp.Op != token.LEQ {
			continue
		}
		l, isLen := lenOf(cmp.X)
		if !isLen || l != ssa.Value(nal) || cmp.Y != ssa.Value(fn.Params[2]) {
			continue
		}
		for _, in := range b.Succs[0].Instrs {
			if c, ok := in.(*ssa.Call); ok {
				if bi, isB := c.Call.Value.(*ssa.Builtin); isB && bi.Name() == "copy" && c.Call.Args[1] == ssa.Value(nal) {
					okSingle = true
				}
			}
		}
	}
	r.Check(okSingle, "C12.R3", fkey(fn, "single", "copy-whole"), p.Pos(fn.Pos()), "single-NAL packet = copy(nal)", "a unit that fits the payload limit is no longer sent as an unmodified single NAL packet")
	c12r45(p, r)
	c12r6(p, r)
	c12r8As(p, r, "C12.R8")
	c07r12(p, r, "C12.R9")
	w5SizeCount(p, r, "C12.R10")
	w6AvcSingle(p, r, "C12.R11")
	w7DoneSeqEveryUnit(p, r, "C12.R13")
	w8JumpOnlyWhenFull(p, r, "C12.R14")
	w8SeqPlusOne(p, r, "C12.R15")
	w6ShiftWidth(p, r, "C12.R12", 0, "pkg/rtprtcp", "pkg/sdp", "pkg/avc", "pkg/hevc", "pkg/aac")
	c07r7As(p, r, "C12.R7")
}

// selfGuard: guards contributed by the block's own position as a successor (none) — kept
// for symmetry; Guards() already covers dominating edges.
func selfGuard(b *ssa.BasicBlock) []model.Guard { return nil }

// valueBits computes which bits of the integer value src (in src's bit positions) are present
// in v after shifts, masks and truncating conversions. The second result is false when v does
// not derive from src by such operations only.
func valueBits(v ssa.Value, src ssa.Value) (uint64, bool) {
	type item struct {
		mask  uint64
		shift int
	}
	width := func(t types.Type) int {
		if b, ok := t.Underlying().(*types.Basic); ok {
			switch b.Kind() {
			case types.Uint8, types.Int8:
				return 8
			case types.Uint16, types.Int16:
				return 16
			case types.Uint32, types.Int32:
				return 32
			}
		}
		return 64
	}
	var rec func(x ssa.Value, d int) ([]item, bool)
	rec = func(x ssa.Value, d int) ([]item, bool) {
		if d > 20 {
			return nil, false
		}
		if x == src || (paramCell(x) != nil && paramCell(x) == paramCell(src)) {
			w := width(src.Type())
			m := ^uint64(0)
			if w < 64 {
				m = (uint64(1) << uint(w)) - 1
			}
			return []item{{m, 0}}, true
		}
		switch y := x.(type) {
		case *ssa.Convert:
			in, ok := rec(y.X, d+1)
			if !ok {
				return nil, false
			}
			w := width(y.Type())
			var out []item
			for _, it := range in {
				m := it.mask
				if w < 64 {
					keep := (uint64(1) << uint(w)) - 1
					if it.shift >= 0 {
						m &= keep << uint(it.shift)
					} else {
						m &= keep >> uint(-it.shift)
					}
				}
				if m != 0 {
					out = append(out, item{m, it.shift})
				}
			}
			return out, true
		case *ssa.BinOp:
			k, isK := model.ConstInt(y.Y)
			switch y.Op {
			case token.AND:
				if isK {
					in, ok := rec(y.X, d+1)
					if !ok {
						return nil, false
					}
					var out []item
					for _, it := range in {
						var mm uint64
						if it.shift >= 0 {
							mm = uint64(k) << uint(it.shift)
						} else {
							mm = uint64(k) >> uint(-it.shift)
						}
						if m := it.mask & mm; m != 0 {
							out = append(out, item{m, it.shift})
						}
					}
					return out, true
				}
			case token.SHR:
				if isK {
					in, ok := rec(y.X, d+1)
					if !ok {
						return nil, false
					}
					var out []item
					for _, it := range in {
						sh := it.shift + int(k)
						m := it.mask
						if sh > 0 {
							m &^= (uint64(1) << uint(sh)) - 1
						}
						if m != 0 {
							out = append(out, item{m, sh})
						}
					}
					return out, true
				}
			case token.OR, token.ADD:
				a, ok1 := rec(y.X, d+1)
				b, ok2 := rec(y.Y, d+1)
				if ok1 || ok2 {
					return append(a, b...), true
				}
			}
		}
		return nil, false
	}
	its, ok := rec(model.Unwrap(v), 0)
	if !ok {
		// v may be wrapped in conversions only at the top
		its, ok = rec(v, 0)
	}
	var m uint64
	for _, it := range its {
		m |= it.mask
	}
	return m, ok
}
