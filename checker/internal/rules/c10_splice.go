package rules

import (
	"fmt"
	"go/token"
	"go/types"
	"sort"
	"strings"

	"golang.org/x/tools/go/ssa"

	"lalverif/internal/model"
	"lalverif/internal/report"
)

// linTerms flattens v into a multiset of non-constant terms and a constant (ADD/SUB only).
func linTerms(v ssa.Value) (map[ssa.Value]int, int64) {
	terms := map[ssa.Value]int{}
	var k int64
	var rec func(v ssa.Value, sign int, d int)
	rec = func(v ssa.Value, sign int, d int) {
		if c, ok := model.ConstInt(v); ok {
			k += int64(sign) * c
			return
		}
		if cv, ok := v.(*ssa.Convert); ok && d < 20 {
			if _, isInt := cv.X.Type().Underlying().(*types.Basic); isInt && isInteger(cv.X.Type()) && isInteger(cv.Type()) {
				rec(cv.X, sign, d+1)
				return
			}
		}
		if b, ok := v.(*ssa.BinOp); ok && d < 20 {
			switch b.Op {
			case token.ADD:
				rec(b.X, sign, d+1)
				rec(b.Y, sign, d+1)
				return
			case token.SUB:
				rec(b.X, sign, d+1)
				rec(b.Y, -sign, d+1)
				return
			}
		}
		terms[v] += sign
		if terms[v] == 0 {
			delete(terms, v)
		}
	}
	if v != nil {
		rec(v, 1, 0)
	}
	return terms, k
}

func termsString(t map[ssa.Value]int, k int64) string {
	var parts []string
	for v, c := range t {
		name := v.Name()
		if call, ok := v.(*ssa.Call); ok && model.CalleeObj(call.Common()) != nil {
			name = model.CalleeObj(call.Common()).Name() + "(..)"
		}
		parts = append(parts, fmt.Sprintf("%+d*%s", c, name))
	}
	sort.Strings(parts)
	return strings.Join(parts, "") + fmt.Sprintf("%+d", k)
}

// c10r6: the in-place rewrite of the #EXT-X-TARGETDURATION line keeps every byte outside that line.
func c10r6(p *model.Prog, r *report.Result) {
	r.Rule("C10.R6", "updateTargetDurationInM3u8 rebuilds the playlist as content[:l] + new tag + content[l+n:], where l = bytes.Index(content, tag) and n = bytes.Index(content[l:], \"\\n\"): the head ends where the tag starts and the tail starts at the line terminator found for that tag, so no byte outside the old tag line is dropped or duplicated")
	fn := p.Func("pkg/hls", "updateTargetDurationInM3u8")
	content := fn.Params[0]
	bidx := p.FuncObj("bytes", "Index")
	bidxb := p.FuncObj("bytes", "IndexByte")
	var l, n ssa.Value
	for _, ci := range model.CallsTo(fn, bidx, bidxb) {
		a0 := ci.Common().Args[0]
		if a0 == ssa.Value(content) {
			l = ci.Value()
		} else if sl, ok := a0.(*ssa.Slice); ok && sl.X == ssa.Value(content) && sl.High == nil && l != nil && sl.Low == l {
			n = ci.Value()
		}
	}
	if l == nil || n == nil {
		r.Bad("C10.R6", fkey(fn, "splice", "anchors"), p.Pos(fn.Pos()), "the tag position / line end searches (bytes.Index(content,..), bytes.Index(content[l:],..)) were not found")
		return
	}
	// slices of content that are copied / appended into the new buffer
	var heads, tails []*ssa.Slice
	model.EachInstr(fn, func(in ssa.Instruction) {
		call, ok := in.(*ssa.Call)
		if !ok {
			return
		}
		b, isB := call.Call.Value.(*ssa.Builtin)
		if !isB || (b.Name() != "append" && b.Name() != "copy") || len(call.Call.Args) < 2 {
			return
		}
		sl, ok := call.Call.Args[1].(*ssa.Slice)
		if !ok || sl.X != ssa.Value(content) {
			return
		}
		if sl.Low == nil {
			heads = append(heads, sl)
		} else if sl.High == nil {
			tails = append(tails, sl)
		}
	})
	if len(heads) != 1 || len(tails) != 1 {
		r.Bad("C10.R6", fkey(fn, "splice", "shape"), p.Pos(fn.Pos()), fmt.Sprintf("expected one head and one tail slice of content copied into the rewritten playlist, found %d/%d", len(heads), len(tails)))
		return
	}
	ht, hk := linTerms(heads[0].High)
	r.Check(len(ht) == 1 && ht[l] == 1 && hk == 0, "C10.R6", fkey(fn, "splice", "head"), p.InstrPos(heads[0]), "head = content[:l]", "the bytes kept before the tag are content[:"+termsString(ht, hk)+"], not content[:l]")
	tt, tk := linTerms(tails[0].Low)
	r.Check(len(tt) == 2 && tt[l] == 1 && tt[n] == 1 && tk == 0, "C10.R6", fkey(fn, "splice", "tail"), p.InstrPos(tails[0]), "tail = content[l+n:] (starts at the line terminator)", "the bytes kept after the tag start at "+termsString(tt, tk)+" instead of l+n: the line terminator is dropped (the next tag is glued to #EXT-X-TARGETDURATION) or old digits are kept")
}
