package rules

import (
	"fmt"
	"go/token"
	"go/types"

	"golang.org/x/tools/go/ssa"

	"lalverif/internal/model"
	"lalverif/internal/report"
)

func init() { register("C06", c06); register("C07", c07) }

// ptsLayout: bit positions of a 33-bit time stamp in the five PES bytes (ISO 13818-1 2.4.3.6):
// byte0 bits3..1 = ts[32..30], byte1 = ts[29..22], byte2 bits7..1 = ts[21..15],
// byte3 = ts[14..7], byte4 bits7..1 = ts[6..0]; bit 0 of bytes 0, 2, 4 is a marker '1'.
func ptsLayout() map[int64][8]int {
	// value: source bit for output bits 0..7; -1 = marker one; -2 = not a time-stamp bit
	return map[int64][8]int{
		0: {-1, 30, 31, 32, -2, -2, -2, -2},
		1: {22, 23, 24, 25, 26, 27, 28, 29},
		2: {-1, 15, 16, 17, 18, 19, 20, 21},
		3: {7, 8, 9, 10, 11, 12, 13, 14},
		4: {-1, 0, 1, 2, 3, 4, 5, 6},
	}
}

func checkBitLayout(p *model.Prog, r *report.Result, rule string, fn *ssa.Function, src ssa.Value, want map[int64][8]int, what string) {
	got, ok := byteStores(fn, fn.Params[0], []ssa.Value{src})
	if !ok {
		r.Bad(rule, fkey(fn, "bits", "shape"), p.Pos(fn.Pos()), what+": the packer is no longer a straight-line sequence of constant-index byte stores; the bit placement is not decided")
		return
	}
	for idx := int64(0); idx < int64(len(want)); idx++ {
		w := want[idx]
		bv, has := got[idx]
		bad := ""
		if !has {
			bad = fmt.Sprintf("byte %d is not written", idx)
		}
		for b := 0; b < 8 && bad == ""; b++ {
			g := bv[b]
			switch {
			case w[b] == -2:
				// other fields
			case w[b] == -1:
				if g.Kind != '1' {
					bad = fmt.Sprintf("byte %d bit %d must be the marker 1", idx, b)
				}
			default:
				if g.Kind != 's' || g.Bit != w[b] {
					have := "a constant/other value"
					if g.Kind == 's' {
						have = fmt.Sprintf("source bit %d", g.Bit)
					}
					bad = fmt.Sprintf("byte %d bit %d must carry bit %d of the value but carries %s", idx, b, w[b], have)
				}
			}
		}
		r.Check(bad == "", rule, fkey(fn, "bits", fmt.Sprintf("byte%d", idx)), p.Pos(fn.Pos()), what+fmt.Sprintf(": byte %d placed as in ISO 13818-1", idx), what+": "+bad+" — time stamps from 2^30 ticks (3 h 19 min) on are written with wrong high bits")
	}
}

func c06(p *model.Prog, r *report.Result) {
	r.Explanation = "Narrow: decides structural necessary conditions of 'TS / HLS / RTSP consumers get the published frames with the published time stamps': the sibling TS outputs receive the very byte slice the remuxer produced (R1); time stamps are widened to 64 bits before they are scaled by 90 (R2); the RTP time stamp is computed from the full clock rate, not from a clock rate divided first (R3); the 33 PTS/DTS bits and the PCR base bits are placed in the PES / adaptation-field bytes exactly as ISO 13818-1 lays them out (R5)."
	r.NotDecided = []string{"frame bytes, order and exactly-once delivery", "the PTS/DTS values themselves and the per-track constant", "ADTS field values (bit layout under C19)", "AUD / parameter-set insertion", "RTP packetisation (C12)"}

	// ---------------------------------------------------------------- R1
	r.Rule("C06.R1", "in Group.feedTsPackets the data handed to hlsMuxer.FeedMpegts, to every live httpts session.Write, to recordMpegts.Write and to httptsGopCache.Feed is the function's tsPackets parameter itself")
	fts := p.Method("pkg/logic", "Group", "feedTsPackets")
	ts := fts.Params[1]
	n := 0
	for _, ci := range model.AllCalls(fts) {
		o := model.CalleeObj(ci.Common())
		if o == nil {
			continue
		}
		args := ci.Common().Args
		var data ssa.Value
		switch {
		case o.Name() == "FeedMpegts" && len(args) >= 2:
			data = args[1]
		case o.Name() == "Feed" && len(args) >= 2 && recvTypeName(o) == "GopCacheMpegts":
			data = args[1]
		case o.Name() == "Write" && len(args) >= 2 && recvTypeName(o) == "FileWriter":
			data = args[1]
		case o.Name() == "Write" && len(args) >= 2 && recvTypeName(o) == "SubSession":
			// live data only: writes of cached GOP items / patpmt are loads of other fields
			if _, isP := args[1].(*ssa.Parameter); !isP {
				if fp, ok := loadPath(args[1]); ok && len(fp.Fields) > 0 {
					continue
				}
				if _, isExtract := args[1].(*ssa.Extract); isExtract {
					continue
				}
				if _, isLd := args[1].(*ssa.UnOp); isLd {
					continue
				}
			}
			data = args[1]
		default:
			continue
		}
		n++
		r.Check(data == ssa.Value(ts), "C06.R1", fkey(fts, "same-bytes", o.Name()), p.InstrPos(ci), "receives tsPackets", "a TS output is fed something other than the packets the remuxer produced for this frame")
	}
	if n < 4 {
		r.Bad("C06.R1", "floor", p.Pos(fts.Pos()), fmt.Sprintf("only %d TS outputs found in feedTsPackets", n))
	}

	// ---------------------------------------------------------------- R2
	r.Rule("C06.R2", "every multiplication by 90 (milliseconds to 90 kHz ticks) in pkg/remux and pkg/mpegts is performed in 64 bits: the operand is converted before it is scaled")
	n90 := 0
	for _, fn := range append(lalFuncsIn(p, "pkg/remux"), lalFuncsIn(p, "pkg/mpegts")...) {
		model.EachInstr(fn, func(in ssa.Instruction) {
			b, ok := in.(*ssa.BinOp)
			if !ok || b.Op != token.MUL {
				return
			}
			kx, isKx := model.ConstInt(b.X)
			ky, isKy := model.ConstInt(b.Y)
			if !(isKx && kx == 90) && !(isKy && ky == 90) {
				return
			}
			if isKx && isKy {
				return
			}
			n90++
			r.Check(typeWidth(b.Type()) == 64, "C06.R2", fkey(fn, "scale90", "width"), p.InstrPos(b), "scaled in 64 bits", "a 32-bit time stamp is multiplied by 90 before it is widened: it wraps after 2^32/90 ms = 13 h 15 min of stream time")
		})
	}
	if n90 < 4 {
		r.Bad("C06.R2", "floor", "", fmt.Sprintf("only %d scalings by 90 found", n90))
	}

	// ---------------------------------------------------------------- R3
	r.Rule("C06.R3", "the RTP time stamp stored by RtpPacker.Pack depends on the clock rate only through the full value: no operand of its computation is an integer division of the clock rate")
	pack := p.Method("pkg/rtprtcp", "RtpPacker", "Pack")
	clk := p.Field("pkg/rtprtcp", "RtpPacker", "clockRate")
	tsF := p.Field("pkg/rtprtcp", "RtpHeader", "Timestamp")
	nTs := 0
	for _, st := range model.FieldStores(pack, tsF) {
		nTs++
		truncated := model.DependsOn(st.Val, func(v ssa.Value) bool {
			q, ok := v.(*ssa.BinOp)
			if !ok || q.Op != token.QUO {
				return false
			}
			_, isInt := q.Type().Underlying().(*types.Basic)
			return isInt && isInteger(q.Type()) && model.DependsOn(q.X, func(x ssa.Value) bool { return model.IsLoadOfField(x, clk) })
		})
		uses := model.DependsOn(st.Val, func(x ssa.Value) bool { return model.IsLoadOfField(x, clk) })
		r.Check(uses && !truncated, "C06.R3", fkey(pack, "rtp-ts", "full-clock"), p.InstrPos(st), "computed from the full clock rate", "the RTP time stamp is computed from a clock rate that was integer-divided first (44100/1000 = 44): 0.23 % drift")
	}
	if nTs != 1 {
		r.Bad("C06.R3", "floor", p.Pos(pack.Pos()), "the store of RtpHeader.Timestamp in RtpPacker.Pack was not found")
	}

	// ---------------------------------------------------------------- R5
	r.Rule("C06.R5", "mpegts.packPts writes the 33 time-stamp bits at the positions of ISO 13818-1 (byte0 bits3..1 = ts[32..30], byte1 = ts[29..22], byte2 bits7..1 = ts[21..15], byte3 = ts[14..7], byte4 bits7..1 = ts[6..0], marker bits 1); mpegts.packPcr writes PCR base bits 32..1 in bytes 0..3 and bit 0 in bit 7 of byte 4")
	pts := p.Func("pkg/mpegts", "packPts")
	checkBitLayout(p, r, "C06.R5", pts, pts.Params[2], ptsLayout(), "packPts")
	c09PlacementAs(p, r, "C06.R6", "")
	c06r8(p, r)
	c06r9(p, r, "C06.R9")
	c12r8As(p, r, "C06.R10")
	w6TsBase(p, r, "C06.R11")
	w6ShiftWidth(p, r, "C06.R12", 0, "pkg/rtprtcp", "pkg/mpegts", "pkg/remux", "pkg/base", "pkg/avc", "pkg/hevc", "pkg/aac", "pkg/sdp", "pkg/hls")
	r.Rule("C06.R7", "the frames cached by Rtmp2RtspRemuxer while it waits for the sequence headers, and everything else the remuxers keep, are copies of the message, not references into the caller's buffer (same propagation as C01.R7)")
	retentionRule(p, r, "C06.R7", []retRoot{{p.Method("pkg/logic", "Group", "OnReadRtmpAvMsg"), 1}}, 40)
	pcr := p.Func("pkg/mpegts", "packPcr")
	checkBitLayout(p, r, "C06.R5", pcr, pcr.Params[1], map[int64][8]int{
		0: {25, 26, 27, 28, 29, 30, 31, 32},
		1: {17, 18, 19, 20, 21, 22, 23, 24},
		2: {9, 10, 11, 12, 13, 14, 15, 16},
		3: {1, 2, 3, 4, 5, 6, 7, 8},
		4: {-2, -1, -1, -1, -1, -1, -1, 0},
	}, "packPcr")
}

func recvTypeName(f *types.Func) string {
	sig, ok := f.Type().(*types.Signature)
	if !ok || sig.Recv() == nil {
		return ""
	}
	t := sig.Recv().Type()
	if pt, ok := t.(*types.Pointer); ok {
		t = pt.Elem()
	}
	if n, ok := t.(*types.Named); ok {
		return n.Obj().Name()
	}
	return ""
}

func c07(p *model.Prog, r *report.Result) {
	r.Explanation = "Narrow: decides structural necessary conditions of 'RTSP / GB28181 / customize ingest reaches RTMP consumers with the same frames and drift-free time stamps': every conversion of an RTP time stamp to milliseconds in the unpackers uses the full clock rate (no operand is the clock rate integer-divided first) (R1); AvPacket2RtmpRemuxer.emitRtmpAvMsg stamps the message with the packet's time stamp and the length of the very payload it stores (R2); RtpPacketList keeps its Size equal to the number of linked packets on the paths that unlink packets (R3)."
	r.NotDecided = []string{"frame identity, order, exactly-once", "reorder / duplicate tolerance and sequence wrap-around", "PS reassembly", "the per-track constant"}

	// ---------------------------------------------------------------- R1
	r.Rule("C07.R1", "in pkg/rtprtcp every value stored to AvPacket.Timestamp that depends on RtpHeader.Timestamp is computed without an integer division of the clock rate (Timestamp / (clockRate/1000) drifts for 44.1 kHz and divides by zero below 1 kHz)")
	avTs := p.Field("pkg/base", "AvPacket", "Timestamp")
	rtpTs := p.Field("pkg/rtprtcp", "RtpHeader", "Timestamp")
	n := 0
	badDivisor := func(fn *ssa.Function) (ssa.Instruction, bool) {
		var hit ssa.Instruction
		model.EachInstr(fn, func(in ssa.Instruction) {
			q, ok := in.(*ssa.BinOp)
			if !ok || q.Op != token.QUO || !isInteger(q.Type()) {
				return
			}
			// divisor itself derived from an integer division by a constant of something named clock rate
			if model.DependsOn(q.Y, func(v ssa.Value) bool {
				d, ok := v.(*ssa.BinOp)
				if !ok || d.Op != token.QUO || !isInteger(d.Type()) {
					return false
				}
				_, isK := model.ConstInt(d.Y)
				return isK && model.DependsOn(d.X, func(x ssa.Value) bool {
					if f := model.LoadedField(x); f != nil && f.Name() == "clockRate" {
						return true
					}
					if prm, ok := x.(*ssa.Parameter); ok && prm.Name() == "clockRate" {
						return true
					}
					return false
				})
			}) {
				hit = in
			}
		})
		return hit, hit != nil
	}
	for _, fn := range lalFuncsIn(p, "pkg/rtprtcp") {
		for _, st := range model.FieldStores(fn, avTs) {
			if !model.DependsOn(st.Val, func(v ssa.Value) bool {
				if model.IsLoadOfField(v, rtpTs) {
					return true
				}
				c, ok := v.(*ssa.Call)
				return ok && c.Common().StaticCallee() != nil && c.Common().StaticCallee().Name() == "rtpTimestamp2Ms"
			}) {
				continue
			}
			n++
			hit, bad := badDivisor(fn)
			pos := p.InstrPos(st)
			if bad {
				pos = p.InstrPos(hit)
			}
			r.Check(!bad, "C07.R1", fkey(fn, "ts-ms", "full-clock"), pos, "no truncated clock divisor in this function", "an RTP time stamp is divided by clockRate/1000: 44100 Hz is treated as 44000 (2.27 s drift per 1000 s) and a clock rate below 1000 divides by zero")
		}
	}
	conv := p.Func("pkg/rtprtcp", "rtpTimestamp2Ms")
	hit, bad := badDivisor(conv)
	pos := p.Pos(conv.Pos())
	if bad {
		pos = p.InstrPos(hit)
	}
	r.Check(!bad, "C07.R1", fkey(conv, "ts-ms", "full-clock"), pos, "rtpTimestamp2Ms multiplies before dividing by the full clock rate", "rtpTimestamp2Ms divides by a truncated clock rate")
	if n < 3 { // at least one per unpacker kind (aac, avc/hevc, raw); helpers may share a conversion between branches
		r.Bad("C07.R1", "floor", "", fmt.Sprintf("only %d time-stamp conversions found in the unpackers", n))
	}

	// ---------------------------------------------------------------- R2
	r.Rule("C07.R2", "in AvPacket2RtmpRemuxer.emitRtmpAvMsg the audio/video message is built with TimestampAbs = uint32(timestamp parameter), MsgLen = len(payload parameter) and Payload = the payload parameter")
	emit := p.Method("pkg/remux", "AvPacket2RtmpRemuxer", "emitRtmpAvMsg")
	payload, tsParam := emit.Params[2], emit.Params[3]
	msgLen := p.Field("pkg/base", "RtmpHeader", "MsgLen")
	tsAbs := p.Field("pkg/base", "RtmpHeader", "TimestampAbs")
	plF := p.Field("pkg/base", "RtmpMsg", "Payload")
	okLen, okTs, okPl := false, false, false
	for _, st := range model.FieldStores(emit, msgLen) {
		if l, isL := lenOf(model.Unwrap(st.Val)); isL && l == ssa.Value(payload) {
			okLen = true
		}
	}
	for _, st := range model.FieldStores(emit, tsAbs) {
		if model.Unwrap(st.Val) == ssa.Value(tsParam) {
			okTs = true
		}
	}
	for _, st := range model.FieldStores(emit, plF) {
		if st.Val == ssa.Value(payload) {
			okPl = true
		}
	}
	r.Check(okLen, "C07.R2", fkey(emit, "msg", "MsgLen"), p.Pos(emit.Pos()), "MsgLen = len(payload)", "the emitted message's MsgLen is not the length of the payload it carries")
	r.Check(okTs, "C07.R2", fkey(emit, "msg", "TimestampAbs"), p.Pos(emit.Pos()), "TimestampAbs = timestamp", "the emitted message is not stamped with the packet's time stamp")
	r.Check(okPl, "C07.R2", fkey(emit, "msg", "Payload"), p.Pos(emit.Pos()), "Payload = payload", "the emitted message does not carry the payload parameter")

	// ---------------------------------------------------------------- R3
	c07r3(p, r)

	c07r56(p, r)
	c07r78(p, r)
	c07r910(p, r)
	c07r11(p, r)
	c07r12(p, r, "C07.R12")
	w5FeedAvSize(p, r, "C07.R13")
	w7PtsFieldWidths(p, r, "C07.R15", "pkg/gb28181")
	w8JumpOnlyWhenFull(p, r, "C07.R16")
	w6ShiftWidth(p, r, "C07.R14", 0, "pkg/gb28181", "pkg/rtprtcp", "pkg/mpegts", "pkg/remux", "pkg/rtmp", "pkg/httpflv", "pkg/base", "pkg/avc", "pkg/hevc", "pkg/aac", "pkg/sdp", "pkg/rtsp", "pkg/hls", "pkg/logic")

	// ---------------------------------------------------------------- R4
	r.Rule("C07.R4", "nothing that outlives the ingest callbacks keeps a reference into the RTP / PS / AvPacket buffer handed in (Group.OnAvPacket, Group.OnRtpPacket, CustomizePubSessionContext.FeedAvPacket, PsUnpacker.FeedRtpPacket, BaseInSession.handleRtpPacket): queued packets and cached parameter sets are copies")
	retentionRule(p, r, "C07.R4", []retRoot{{p.Method("pkg/logic", "Group", "OnAvPacket"), 1}, {p.Method("pkg/logic", "Group", "OnRtpPacket"), 1}, {p.Method("pkg/logic", "CustomizePubSessionContext", "FeedAvPacket"), 1}, {p.Method("pkg/gb28181", "PsUnpacker", "FeedRtpPacket"), 1}, {p.Method("pkg/rtsp", "BaseInSession", "handleRtpPacket"), 1}}, 30)
}
