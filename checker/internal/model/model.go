// Package model is engine A: it loads /repo's current working tree with go/packages,
// type-checks it from source, builds go/ssa and (lazily) the VTA call graph, and offers
// anchor lookups that fail loudly (Undecided) instead of matching nothing.
package model

import (
	"fmt"
	"go/ast"
	"go/token"
	"go/types"
	"os"
	"path/filepath"
	"sort"
	"strings"
	"sync"

	"golang.org/x/tools/go/callgraph"
	"golang.org/x/tools/go/callgraph/cha"
	"golang.org/x/tools/go/callgraph/vta"
	"golang.org/x/tools/go/packages"
	"golang.org/x/tools/go/ssa"
	"golang.org/x/tools/go/ssa/ssautil"
)

const LalPath = "github.com/q191201771/lal"
const NazaPath = "github.com/q191201771/naza"

// Undecided is panicked when an anchor cannot be resolved or the tree cannot be analysed.
// main turns it into exit status 2.
type Undecided struct{ Msg string }

func (u Undecided) Error() string { return u.Msg }

func Undecidedf(format string, a ...interface{}) {
	panic(Undecided{fmt.Sprintf(format, a...)})
}

type Prog struct {
	Repo  string
	Fset  *token.FileSet
	Pkgs  []*packages.Package // lal packages (roots of the load)
	All   map[string]*packages.Package
	SSA   *ssa.Program
	SPkgs map[string]*ssa.Package

	cgOnce sync.Once
	cg     *callgraph.Graph
	chaCG  *callgraph.Graph

	allFnOnce sync.Once
	allFns    []*ssa.Function // every function (incl. anon, synthetic) with lal or naza package, sorted
}

// Load type-checks every package of the module rooted at repo (tests excluded) and builds SSA.
func Load(repo string, extraEnv ...string) *Prog {
	abs, err := filepath.Abs(repo)
	if err != nil {
		Undecidedf("repo path: %v", err)
	}
	env := []string{}
	for _, e := range os.Environ() {
		if strings.HasPrefix(e, "GOWORK=") || strings.HasPrefix(e, "GOFLAGS=") {
			continue
		}
		env = append(env, e)
	}
	env = append(env, "GOFLAGS=-mod=mod", "GOPROXY=off", "GOSUMDB=off", "GOTOOLCHAIN=local", "GOWORK=off")
	env = append(env, extraEnv...)
	cfg := &packages.Config{
		Mode:  packages.LoadAllSyntax,
		Dir:   abs,
		Env:   env,
		Tests: false,
	}
	pkgs, err := packages.Load(cfg, "./...")
	if err != nil {
		Undecidedf("packages.Load: %v", err)
	}
	if len(pkgs) < 30 {
		Undecidedf("only %d packages loaded from %s (expected >= 30)", len(pkgs), abs)
	}
	nerr := 0
	var first string
	packages.Visit(pkgs, nil, func(p *packages.Package) {
		for _, e := range p.Errors {
			if nerr == 0 {
				first = e.Error()
			}
			nerr++
		}
	})
	if nerr > 0 {
		Undecidedf("%d load/type errors, first: %s", nerr, first)
	}
	p := &Prog{Repo: abs, Pkgs: pkgs, All: map[string]*packages.Package{}, SPkgs: map[string]*ssa.Package{}}
	packages.Visit(pkgs, nil, func(pk *packages.Package) { p.All[pk.PkgPath] = pk })
	if len(pkgs) > 0 {
		p.Fset = pkgs[0].Fset
	}
	prog, _ := ssautil.AllPackages(pkgs, ssa.InstantiateGenerics)
	prog.Build()
	p.SSA = prog
	for _, sp := range prog.AllPackages() {
		p.SPkgs[sp.Pkg.Path()] = sp
	}
	return p
}

// ---------------------------------------------------------------------------------------------
// anchors

func (p *Prog) pkgPath(short string) string {
	if strings.HasPrefix(short, "naza/") {
		return NazaPath + "/" + strings.TrimPrefix(short, "naza/")
	}
	if strings.Contains(short, ".") { // std or full path
		return short
	}
	if strings.HasPrefix(short, "pkg/") || strings.HasPrefix(short, "app/") {
		return LalPath + "/" + short
	}
	return short
}

func (p *Prog) TPkg(short string) *types.Package {
	pk := p.All[p.pkgPath(short)]
	if pk == nil {
		Undecidedf("anchor: package %q not loaded", short)
	}
	return pk.Types
}

func (p *Prog) SPkg(short string) *ssa.Package {
	sp := p.SPkgs[p.pkgPath(short)]
	if sp == nil {
		Undecidedf("anchor: ssa package %q not found", short)
	}
	return sp
}

// Named returns the named type pkg.name.
func (p *Prog) Named(pkg, name string) *types.Named {
	o := p.TPkg(pkg).Scope().Lookup(name)
	if o == nil {
		Undecidedf("anchor: type %s.%s not found", pkg, name)
	}
	n, ok := o.Type().(*types.Named)
	if !ok {
		Undecidedf("anchor: %s.%s is not a named type", pkg, name)
	}
	return n
}

// Field returns the field object of struct type pkg.typ.
func (p *Prog) Field(pkg, typ, field string) *types.Var {
	n := p.Named(pkg, typ)
	st, ok := n.Underlying().(*types.Struct)
	if !ok {
		Undecidedf("anchor: %s.%s is not a struct", pkg, typ)
	}
	for i := 0; i < st.NumFields(); i++ {
		if st.Field(i).Name() == field {
			p.recordField(pkg, typ, field, st, i)
			return st.Field(i)
		}
	}
	if f := p.fieldFallback(pkg, typ, field, st); f != nil {
		return f
	}
	Undecidedf("anchor: field %s.%s.%s not found", pkg, typ, field)
	return nil
}

// TryField is Field without failing.
func (p *Prog) TryField(pkg, typ, field string) *types.Var {
	pk := p.All[p.pkgPath(pkg)]
	if pk == nil {
		return nil
	}
	o := pk.Types.Scope().Lookup(typ)
	if o == nil {
		return nil
	}
	st, ok := o.Type().Underlying().(*types.Struct)
	if !ok {
		return nil
	}
	for i := 0; i < st.NumFields(); i++ {
		if st.Field(i).Name() == field {
			p.recordField(pkg, typ, field, st, i)
			return st.Field(i)
		}
	}
	return p.fieldFallback(pkg, typ, field, st)
}

// MethodObj returns the *types.Func of method name on named type (value or pointer receiver) or interface.
func (p *Prog) MethodObj(pkg, typ, name string) *types.Func {
	n := p.Named(pkg, typ)
	obj, _, _ := types.LookupFieldOrMethod(types.NewPointer(n), true, n.Obj().Pkg(), name)
	if obj == nil {
		obj, _, _ = types.LookupFieldOrMethod(n, true, n.Obj().Pkg(), name)
	}
	f, ok := obj.(*types.Func)
	key := "m|" + pkg + "|" + typ + "|" + name
	if !ok {
		if fb := p.funcFallback(key, p.methodCands(n)); fb != nil {
			return fb
		}
		Undecidedf("anchor: method %s.%s.%s not found", pkg, typ, name)
	}
	p.recordFunc(key, f, p.methodNames(n))
	return f
}

func (p *Prog) TryMethodObj(pkg, typ, name string) (f *types.Func) {
	defer func() {
		if r := recover(); r != nil {
			if _, ok := r.(Undecided); ok {
				f = nil
				return
			}
			panic(r)
		}
	}()
	return p.MethodObj(pkg, typ, name)
}

// FuncObj returns the package-level function object.
func (p *Prog) FuncObj(pkg, name string) *types.Func {
	tp := p.TPkg(pkg)
	o := tp.Scope().Lookup(name)
	f, ok := o.(*types.Func)
	key := "f|" + pkg + "|" + name
	names, cands := p.pkgFuncNames(tp)
	if !ok {
		if fb := p.funcFallback(key, cands); fb != nil {
			return fb
		}
		Undecidedf("anchor: func %s.%s not found", pkg, name)
	}
	p.recordFunc(key, f, names)
	return f
}

func (p *Prog) TryFuncObj(pkg, name string) *types.Func {
	pk := p.All[p.pkgPath(pkg)]
	if pk == nil {
		return nil
	}
	f, _ := pk.Types.Scope().Lookup(name).(*types.Func)
	key := "f|" + pkg + "|" + name
	names, cands := p.pkgFuncNames(pk.Types)
	if f == nil {
		return p.funcFallback(key, cands)
	}
	p.recordFunc(key, f, names)
	return f
}

// Method returns the SSA function of a concrete method.
func (p *Prog) Method(pkg, typ, name string) *ssa.Function {
	f := p.SSA.FuncValue(p.MethodObj(pkg, typ, name))
	if f == nil || len(f.Blocks) == 0 {
		Undecidedf("anchor: no SSA body for %s.%s.%s", pkg, typ, name)
	}
	return f
}

func (p *Prog) TryMethod(pkg, typ, name string) *ssa.Function {
	o := p.TryMethodObj(pkg, typ, name)
	if o == nil {
		return nil
	}
	f := p.SSA.FuncValue(o)
	if f == nil || len(f.Blocks) == 0 {
		return nil
	}
	return f
}

// Func returns the SSA function of a package-level function.
func (p *Prog) Func(pkg, name string) *ssa.Function {
	f := p.SSA.FuncValue(p.FuncObj(pkg, name))
	if f == nil || len(f.Blocks) == 0 {
		Undecidedf("anchor: no SSA body for %s.%s", pkg, name)
	}
	return f
}

func (p *Prog) TryFunc(pkg, name string) *ssa.Function {
	o := p.TryFuncObj(pkg, name)
	if o == nil {
		return nil
	}
	f := p.SSA.FuncValue(o)
	if f == nil || len(f.Blocks) == 0 {
		return nil
	}
	return f
}

// Const returns the constant object pkg.name.
func (p *Prog) Const(pkg, name string) *types.Const {
	c, ok := p.TPkg(pkg).Scope().Lookup(name).(*types.Const)
	if !ok {
		Undecidedf("anchor: const %s.%s not found", pkg, name)
	}
	return c
}

// Global returns a package-level var's SSA global.
func (p *Prog) Global(pkg, name string) *ssa.Global {
	g, ok := p.SPkg(pkg).Members[name].(*ssa.Global)
	if !ok {
		Undecidedf("anchor: var %s.%s not found", pkg, name)
	}
	return g
}

// ---------------------------------------------------------------------------------------------
// function universe

func inScopePkg(pk *types.Package) bool {
	if pk == nil {
		return false
	}
	return strings.HasPrefix(pk.Path(), LalPath) || strings.HasPrefix(pk.Path(), NazaPath)
}

// IsLal reports whether fn belongs to lal (pkg/ or app/), following anon parents.
func IsLal(fn *ssa.Function) bool {
	pk := FnPkg(fn)
	return pk != nil && strings.HasPrefix(pk.Path(), LalPath)
}

func IsLalPkgDir(fn *ssa.Function) bool {
	pk := FnPkg(fn)
	return pk != nil && strings.HasPrefix(pk.Path(), LalPath+"/pkg/")
}

func IsNaza(fn *ssa.Function) bool {
	pk := FnPkg(fn)
	return pk != nil && strings.HasPrefix(pk.Path(), NazaPath)
}

// FnPkg is the types.Package a function belongs to, also for anonymous functions, and for
// synthetic wrappers/bound closures via the object they wrap.
func FnPkg(fn *ssa.Function) *types.Package {
	for f := fn; f != nil; f = f.Parent() {
		if f.Pkg != nil {
			return f.Pkg.Pkg
		}
		if o := f.Object(); o != nil && o.Pkg() != nil {
			return o.Pkg()
		}
	}
	return nil
}

// AllFuncs returns every SSA function (named, anonymous, synthetic) of lal and naza.
func (p *Prog) AllFuncs() []*ssa.Function {
	p.allFnOnce.Do(func() {
		all := ssautil.AllFunctions(p.SSA)
		for f := range all {
			if inScopePkg(FnPkg(f)) {
				p.allFns = append(p.allFns, f)
			}
		}
		sort.Slice(p.allFns, func(i, j int) bool { return FnName(p.allFns[i]) < FnName(p.allFns[j]) })
	})
	return p.allFns
}

// LalFuncs returns source functions (with bodies) of lal packages under pkg/ (no innertest, no app).
func (p *Prog) LalFuncs() []*ssa.Function {
	var out []*ssa.Function
	for _, f := range p.AllFuncs() {
		if len(f.Blocks) == 0 || f.Synthetic != "" {
			continue
		}
		pk := FnPkg(f)
		if pk == nil || !strings.HasPrefix(pk.Path(), LalPath+"/pkg/") || strings.HasSuffix(pk.Path(), "/innertest") {
			continue
		}
		out = append(out, f)
	}
	return out
}

// FnName is a stable printable name: pkg.Recv.name, anon as parent$N.
func FnName(fn *ssa.Function) string {
	if fn == nil {
		return "<nil>"
	}
	s := fn.String()
	s = strings.ReplaceAll(s, LalPath+"/pkg/", "")
	s = strings.ReplaceAll(s, LalPath+"/", "")
	s = strings.ReplaceAll(s, NazaPath+"/pkg/", "naza/")
	s = strings.ReplaceAll(s, "(*", "")
	s = strings.ReplaceAll(s, "(", "")
	s = strings.ReplaceAll(s, ")", "")
	return s
}

// Pos formats a position relative to the repo root.
func (p *Prog) Pos(pos token.Pos) string {
	if !pos.IsValid() {
		return "?"
	}
	ps := p.Fset.Position(pos)
	fn := ps.Filename
	if rel, err := filepath.Rel(p.Repo, fn); err == nil && !strings.HasPrefix(rel, "..") {
		fn = rel
	} else if i := strings.Index(fn, "/pkg/mod/"); i >= 0 {
		fn = fn[i+len("/pkg/mod/"):]
	}
	return fmt.Sprintf("%s:%d", fn, ps.Line)
}

// InstrPos finds the best position for an instruction (falls back to nearby instructions).
func (p *Prog) InstrPos(in ssa.Instruction) string {
	if in == nil {
		return "?"
	}
	if in.Pos().IsValid() {
		return p.Pos(in.Pos())
	}
	if v, ok := in.(ssa.Value); ok {
		if refs := v.Referrers(); refs != nil {
			for _, r := range *refs {
				if r.Pos().IsValid() {
					return p.Pos(r.Pos())
				}
			}
		}
	}
	b := in.Block()
	if b != nil {
		for _, x := range b.Instrs {
			if x.Pos().IsValid() {
				return p.Pos(x.Pos()) + "~"
			}
		}
		return p.Pos(b.Parent().Pos()) + "~"
	}
	return "?"
}

// ---------------------------------------------------------------------------------------------
// call graph

func (p *Prog) CG() *callgraph.Graph {
	p.cgOnce.Do(func() {
		p.chaCG = cha.CallGraph(p.SSA)
		p.cg = vta.CallGraph(ssautil.AllFunctions(p.SSA), p.chaCG)
	})
	return p.cg
}

func (p *Prog) CHA() *callgraph.Graph {
	p.CG()
	return p.chaCG
}

// Callees returns the possible callees of a call instruction according to VTA
// (static callee first when there is one).
func (p *Prog) Callees(site ssa.CallInstruction) []*ssa.Function {
	if c := site.Common().StaticCallee(); c != nil {
		return []*ssa.Function{c}
	}
	n := p.CG().Nodes[site.Parent()]
	if n == nil {
		return nil
	}
	var out []*ssa.Function
	seen := map[*ssa.Function]bool{}
	for _, e := range n.Out {
		if e.Site == site && !seen[e.Callee.Func] {
			seen[e.Callee.Func] = true
			out = append(out, e.Callee.Func)
		}
	}
	sort.Slice(out, func(i, j int) bool { return FnName(out[i]) < FnName(out[j]) })
	return out
}

// Callers returns call edges into fn.
func (p *Prog) Callers(fn *ssa.Function) []*callgraph.Edge {
	n := p.CG().Nodes[fn]
	if n == nil {
		return nil
	}
	return n.In
}

// Reachable computes the set of functions reachable from roots through call edges.
// If cutGo is true, edges whose site is a `go` statement are not followed.
func (p *Prog) Reachable(roots []*ssa.Function, cutGo bool, filter func(*ssa.Function) bool) map[*ssa.Function]*callgraph.Edge {
	cg := p.CG()
	via := map[*ssa.Function]*callgraph.Edge{}
	var work []*ssa.Function
	for _, r := range roots {
		if _, ok := via[r]; !ok {
			via[r] = nil
			work = append(work, r)
		}
	}
	for len(work) > 0 {
		f := work[0]
		work = work[1:]
		n := cg.Nodes[f]
		if n == nil {
			continue
		}
		for _, e := range n.Out {
			if cutGo {
				if _, isGo := e.Site.(*ssa.Go); isGo {
					continue
				}
			}
			c := e.Callee.Func
			if _, ok := via[c]; ok {
				continue
			}
			if filter != nil && !filter(c) {
				continue
			}
			via[c] = e
			work = append(work, c)
		}
	}
	return via
}

// PathTo renders the call chain recorded by Reachable.
func PathTo(via map[*ssa.Function]*callgraph.Edge, fn *ssa.Function) string {
	var parts []string
	for f := fn; f != nil; {
		parts = append([]string{FnName(f)}, parts...)
		e := via[f]
		if e == nil {
			break
		}
		f = e.Caller.Func
		if len(parts) > 40 {
			break
		}
	}
	return strings.Join(parts, " -> ")
}

// ---------------------------------------------------------------------------------------------
// AST access

// FuncDecl finds the syntax of a source function.
func (p *Prog) FuncDecl(fn *ssa.Function) *ast.FuncDecl {
	if d, ok := fn.Syntax().(*ast.FuncDecl); ok {
		return d
	}
	return nil
}

// TypesInfo returns the types.Info of the package defining fn.
func (p *Prog) TypesInfo(fn *ssa.Function) *types.Info {
	pk := FnPkg(fn)
	if pk == nil {
		return nil
	}
	if pp := p.All[pk.Path()]; pp != nil {
		return pp.TypesInfo
	}
	return nil
}
