package model

// Engine D: queries over SSA blocks — dominance of edges, path existence, field accesses,
// resolved call sites, natural loops.

import (
	"fmt"
	"go/constant"
	"go/token"
	"go/types"

	"golang.org/x/tools/go/ssa"
)

// EachInstr visits every instruction of fn (not of nested anonymous functions).
func EachInstr(fn *ssa.Function, f func(ssa.Instruction)) {
	for _, b := range fn.Blocks {
		for _, in := range b.Instrs {
			f(in)
		}
	}
}

// WithAnons returns fn and all (transitively) nested anonymous functions.
func WithAnons(fn *ssa.Function) []*ssa.Function {
	out := []*ssa.Function{fn}
	for _, a := range fn.AnonFuncs {
		out = append(out, WithAnons(a)...)
	}
	return out
}

// FieldOf returns the struct field object addressed by a FieldAddr / Field instruction.
func FieldOf(v ssa.Value) *types.Var {
	switch x := v.(type) {
	case *ssa.FieldAddr:
		t := x.X.Type().Underlying()
		if pt, ok := t.(*types.Pointer); ok {
			if st, ok := pt.Elem().Underlying().(*types.Struct); ok {
				return st.Field(x.Field)
			}
		}
	case *ssa.Field:
		if st, ok := x.X.Type().Underlying().(*types.Struct); ok {
			return st.Field(x.Field)
		}
	}
	return nil
}

// FieldStores returns all stores to the given field in fn.
func FieldStores(fn *ssa.Function, field *types.Var) []*ssa.Store {
	var out []*ssa.Store
	EachInstr(fn, func(in ssa.Instruction) {
		if st, ok := in.(*ssa.Store); ok {
			if FieldOf(st.Addr) == field {
				out = append(out, st)
			}
		}
	})
	return out
}

// FieldLoads returns all loads (UnOp *) of the given field in fn, plus Field extractions.
func FieldLoads(fn *ssa.Function, field *types.Var) []ssa.Value {
	var out []ssa.Value
	EachInstr(fn, func(in ssa.Instruction) {
		switch x := in.(type) {
		case *ssa.UnOp:
			if x.Op == token.MUL && FieldOf(x.X) == field {
				out = append(out, x)
			}
		case *ssa.Field:
			if FieldOf(x) == field {
				out = append(out, x)
			}
		}
	})
	return out
}

// IsLoadOfField reports whether v is a load of the given field (any base).
func IsLoadOfField(v ssa.Value, field *types.Var) bool {
	switch x := v.(type) {
	case *ssa.UnOp:
		return x.Op == token.MUL && FieldOf(x.X) == field
	case *ssa.Field:
		return FieldOf(x) == field
	}
	return false
}

// LoadedField returns the field object if v is a load of some struct field.
func LoadedField(v ssa.Value) *types.Var {
	switch x := v.(type) {
	case *ssa.UnOp:
		if x.Op == token.MUL {
			return FieldOf(x.X)
		}
	case *ssa.Field:
		return FieldOf(x)
	}
	return nil
}

// CalleeObj returns the types.Func a call refers to: the static callee's object, or the
// interface method for invoke-mode calls, or the bound method for $bound closures.
func CalleeObj(c *ssa.CallCommon) *types.Func {
	if c.IsInvoke() {
		return c.Method
	}
	if f := c.StaticCallee(); f != nil {
		if o, ok := f.Object().(*types.Func); ok {
			return o
		}
		return nil
	}
	return nil
}

// SameFunc compares method/function objects modulo generic instantiation origin.
func SameFunc(a, b *types.Func) bool {
	if a == nil || b == nil {
		return false
	}
	return a.Origin() == b.Origin()
}

// CallsTo returns the call instructions in fn whose resolved callee is any of targets.
func CallsTo(fn *ssa.Function, targets ...*types.Func) []ssa.CallInstruction {
	var out []ssa.CallInstruction
	EachInstr(fn, func(in ssa.Instruction) {
		ci, ok := in.(ssa.CallInstruction)
		if !ok {
			return
		}
		o := CalleeObj(ci.Common())
		for _, t := range targets {
			if SameFunc(o, t) {
				out = append(out, ci)
				return
			}
		}
	})
	return out
}

// AllCalls returns all call instructions (call, go, defer) of fn.
func AllCalls(fn *ssa.Function) []ssa.CallInstruction {
	var out []ssa.CallInstruction
	EachInstr(fn, func(in ssa.Instruction) {
		if ci, ok := in.(ssa.CallInstruction); ok {
			out = append(out, ci)
		}
	})
	return out
}

// ---------------------------------------------------------------------------------------------
// dominance

func idx(in ssa.Instruction) int {
	for i, x := range in.Block().Instrs {
		if x == in {
			return i
		}
	}
	return -1
}

// InstrDominates reports whether a executes before b on every path to b.
func InstrDominates(a, b ssa.Instruction) bool {
	if a.Block() == b.Block() {
		return idx(a) < idx(b)
	}
	return a.Block().Dominates(b.Block())
}

// edgeOnlyEntry: the edge d->s is the only way into s apart from back edges from blocks s dominates.
func edgeOnlyEntry(d, s *ssa.BasicBlock) bool {
	n := 0
	for _, p := range s.Preds {
		if p == d {
			n++
			continue
		}
		if !s.Dominates(p) {
			return false
		}
	}
	return n == 1
}

// Guard is a branch edge that dominates a program point.
type Guard struct {
	If       *ssa.If
	Cond     ssa.Value
	Polarity bool // true: the point is only reached when Cond is true
}

// Guards returns every If edge that dominates block b (nearest first).
func Guards(b *ssa.BasicBlock) []Guard {
	var out []Guard
	for d := b.Idom(); d != nil; d = d.Idom() {
		if len(d.Instrs) == 0 {
			continue
		}
		iff, ok := d.Instrs[len(d.Instrs)-1].(*ssa.If)
		if !ok || d.Succs[0] == d.Succs[1] {
			continue
		}
		for k := 0; k < 2; k++ {
			s := d.Succs[k]
			if (s == b || s.Dominates(b)) && edgeOnlyEntry(d, s) {
				out = append(out, Guard{If: iff, Cond: iff.Cond, Polarity: k == 0})
				out = append(out, phiGuards(iff, iff.Cond, k == 0, 0)...)
			}
		}
	}
	return out
}

// phiGuards decomposes a condition that was materialised as a value: `case a && b:` and
// `x := a && b; if x` evaluate the conjunction into a phi [false, ..., b]; when the phi is true
// the control came over the one edge that does not carry the constant false, so b held and so
// did every condition guarding that edge's source block. Dually for a || b on the false edge.
func phiGuards(iff *ssa.If, cond ssa.Value, pol bool, depth int) []Guard {
	c, pol := StripNot(cond, pol)
	ph, ok := c.(*ssa.Phi)
	if !ok || depth > 4 {
		return nil
	}
	idx := -1
	for i, e := range ph.Edges {
		if k, isK := ConstBool(e); isK && k != pol {
			continue // this edge carries the other constant: not the way we came
		}
		if idx >= 0 {
			return nil // more than one possible way
		}
		idx = i
	}
	if idx < 0 {
		return nil
	}
	var out []Guard
	e := ph.Edges[idx]
	if _, isK := ConstBool(e); !isK {
		out = append(out, Guard{If: iff, Cond: e, Polarity: pol})
		out = append(out, phiGuards(iff, e, pol, depth+1)...)
	}
	pred := ph.Block().Preds[idx]
	// the conditions under which the source block of that edge runs
	out = append(out, Guards(pred)...)
	if len(pred.Instrs) > 0 {
		// and the branch that leads from a dominating If directly into pred is part of Guards(pred)
	}
	return out
}

// GuardedBy reports whether instruction in is dominated by the edge where pred(cond)==polarity.
func GuardedBy(in ssa.Instruction, match func(cond ssa.Value, polarity bool) bool) bool {
	for _, g := range Guards(in.Block()) {
		c, pol := StripNot(g.Cond, g.Polarity)
		if match(c, pol) {
			return true
		}
	}
	return false
}

// StripNot removes leading boolean negations, flipping polarity.
func StripNot(c ssa.Value, pol bool) (ssa.Value, bool) {
	for {
		u, ok := c.(*ssa.UnOp)
		if !ok || u.Op != token.NOT {
			return c, pol
		}
		c = u.X
		pol = !pol
	}
}

// ---------------------------------------------------------------------------------------------
// loops

type Loop struct {
	Header *ssa.BasicBlock
	Body   map[*ssa.BasicBlock]bool // includes header
}

// Loops computes natural loops (one per header; back edges to the same header are merged).
func Loops(fn *ssa.Function) []*Loop {
	byHeader := map[*ssa.BasicBlock]*Loop{}
	var order []*ssa.BasicBlock
	for _, b := range fn.Blocks {
		for _, s := range b.Succs {
			if s == b || s.Dominates(b) { // back edge b->s
				l := byHeader[s]
				if l == nil {
					l = &Loop{Header: s, Body: map[*ssa.BasicBlock]bool{s: true}}
					byHeader[s] = l
					order = append(order, s)
				}
				// add all blocks that reach b without passing s
				stack := []*ssa.BasicBlock{b}
				for len(stack) > 0 {
					x := stack[len(stack)-1]
					stack = stack[:len(stack)-1]
					if l.Body[x] {
						continue
					}
					l.Body[x] = true
					stack = append(stack, x.Preds...)
				}
			}
		}
	}
	var out []*Loop
	for _, h := range order {
		out = append(out, byHeader[h])
	}
	return out
}

// ---------------------------------------------------------------------------------------------
// paths

// PathQuery describes an instruction-level reachability question inside one function.
type PathQuery struct {
	From ssa.Instruction // start strictly after this instruction; nil = function entry (or FromBlock)
	// FromBlock, when From is nil, starts at the first instruction of this block.
	FromBlock *ssa.BasicBlock
	// Stop returns true for instructions that block the path (the path is not continued past them).
	Stop func(ssa.Instruction) bool
	// Target returns true for instructions whose reachability is asked.
	Target func(ssa.Instruction) bool
	// LoopHeader: back edges into this block are not followed ("same iteration" of that loop).
	LoopHeader *ssa.BasicBlock
	// StopEdge, when set, blocks following the edge from block b to its k-th successor.
	StopEdge func(b *ssa.BasicBlock, k int) bool
}

// Find returns the first target instruction reachable, or nil.
func (q PathQuery) Find(fn *ssa.Function) ssa.Instruction {
	type start struct {
		b *ssa.BasicBlock
		i int
	}
	var st start
	if q.From == nil && q.FromBlock != nil {
		st = start{q.FromBlock, 0}
	} else if q.From == nil {
		st = start{fn.Blocks[0], 0}
	} else {
		st = start{q.From.Block(), idx(q.From) + 1}
	}
	visited := map[*ssa.BasicBlock]bool{}
	work := []start{st}
	for len(work) > 0 {
		s := work[len(work)-1]
		work = work[:len(work)-1]
		if s.i == 0 {
			if visited[s.b] {
				continue
			}
			visited[s.b] = true
		}
		blocked := false
		for i := s.i; i < len(s.b.Instrs); i++ {
			in := s.b.Instrs[i]
			if q.Target != nil && q.Target(in) {
				return in
			}
			if q.Stop != nil && q.Stop(in) {
				blocked = true
				break
			}
		}
		if blocked {
			continue
		}
		for k, succ := range s.b.Succs {
			if q.StopEdge != nil && q.StopEdge(s.b, k) {
				continue
			}
			if q.LoopHeader != nil && succ == q.LoopHeader && (succ == s.b || succ.Dominates(s.b)) {
				continue
			}
			work = append(work, start{succ, 0})
		}
	}
	return nil
}

// ---------------------------------------------------------------------------------------------
// constants and values

// ConstInt returns the integer value of a constant SSA value.
func ConstInt(v ssa.Value) (int64, bool) {
	c, ok := v.(*ssa.Const)
	if !ok || c.Value == nil {
		return 0, false
	}
	if c.Value.Kind() != constant.Int {
		return 0, false
	}
	if i, ok := constant.Int64Val(c.Value); ok {
		return i, true
	}
	if u, ok := constant.Uint64Val(c.Value); ok {
		return int64(u), true
	}
	return 0, false
}

func ConstBool(v ssa.Value) (bool, bool) {
	c, ok := v.(*ssa.Const)
	if !ok || c.Value == nil || c.Value.Kind() != constant.Bool {
		return false, false
	}
	return constant.BoolVal(c.Value), true
}

func ConstString(v ssa.Value) (string, bool) {
	c, ok := v.(*ssa.Const)
	if !ok || c.Value == nil || c.Value.Kind() != constant.String {
		return "", false
	}
	return constant.StringVal(c.Value), true
}

func IsNilConst(v ssa.Value) bool {
	c, ok := v.(*ssa.Const)
	return ok && c.Value == nil
}

// Unwrap strips conversions, ChangeType, MakeInterface and ChangeInterface.
func Unwrap(v ssa.Value) ssa.Value {
	for {
		switch x := v.(type) {
		case *ssa.Convert:
			v = x.X
		case *ssa.ChangeType:
			v = x.X
		case *ssa.MakeInterface:
			v = x.X
		case *ssa.ChangeInterface:
			v = x.X
		default:
			return v
		}
	}
}

// DependsOn reports whether value v is data-dependent on any value for which pred is true,
// following operands (bounded), through phis, binops, calls' arguments, slices, loads of
// locals stored in the same function (Alloc cells).
func DependsOn(v ssa.Value, pred func(ssa.Value) bool) bool {
	seen := map[ssa.Value]bool{}
	var rec func(ssa.Value, int) bool
	rec = func(x ssa.Value, d int) bool {
		if x == nil || seen[x] || d > 200 {
			return false
		}
		seen[x] = true
		if pred(x) {
			return true
		}
		if in, ok := x.(ssa.Instruction); ok {
			// load of a local cell: follow stores into the cell
			if u, ok := x.(*ssa.UnOp); ok && u.Op == token.MUL {
				if a, ok := u.X.(*ssa.Alloc); ok {
					if refs := a.Referrers(); refs != nil {
						for _, r := range *refs {
							if st, ok := r.(*ssa.Store); ok && st.Addr == a {
								if rec(st.Val, d+1) {
									return true
								}
							}
						}
					}
				}
			}
			for _, op := range in.Operands(nil) {
				if *op != nil && rec(*op, d+1) {
					return true
				}
			}
		}
		return false
	}
	return rec(v, 0)
}

// ReturnsOf returns the Return instructions of fn.
func ReturnsOf(fn *ssa.Function) []*ssa.Return {
	var out []*ssa.Return
	EachInstr(fn, func(in ssa.Instruction) {
		if r, ok := in.(*ssa.Return); ok {
			out = append(out, r)
		}
	})
	return out
}

// ReturnValues resolves the results of a Return, looking through the defer-spill idiom
// (`*cell = v; rundefers; t = *cell; return t`) to the value stored in the same block.
func ReturnValues(ret *ssa.Return) []ssa.Value {
	out := make([]ssa.Value, len(ret.Results))
	for i, rv := range ret.Results {
		out[i] = rv
		u, ok := rv.(*ssa.UnOp)
		if !ok || u.Op != token.MUL {
			continue
		}
		cell, ok := u.X.(*ssa.Alloc)
		if !ok {
			continue
		}
		instrs := ret.Block().Instrs
		for j := len(instrs) - 1; j >= 0; j-- {
			if st, ok := instrs[j].(*ssa.Store); ok && st.Addr == ssa.Value(cell) {
				out[i] = st.Val
				break
			}
		}
	}
	return out
}

// ConstStringIs reports whether v is the string constant s.
func ConstStringIs(v ssa.Value, s string) bool {
	x, ok := ConstString(v)
	return ok && x == s
}

// DependsOnDeep is DependsOn that also looks through calls of functions with a body in the
// module (lal/naza): the values such a callee returns count as operands of the call (depth <= 2).
// It lets a rule recognise a value whose computation was extracted into a helper.
func DependsOnDeep(v ssa.Value, pred func(ssa.Value) bool) bool {
	return dependsDeep(v, pred, 0)
}

func dependsDeep(v ssa.Value, pred func(ssa.Value) bool, depth int) bool {
	found := false
	DependsOn(v, func(x ssa.Value) bool {
		if found {
			return true
		}
		if pred(x) {
			found = true
			return true
		}
		if depth >= 2 {
			return false
		}
		c, ok := x.(*ssa.Call)
		if !ok {
			return false
		}
		ce := c.Call.StaticCallee()
		if ce == nil || ce.Blocks == nil || !(IsLal(ce) || IsNaza(ce)) {
			return false
		}
		for _, ret := range ReturnsOf(ce) {
			for _, rv := range ReturnValues(ret) {
				if dependsDeep(rv, pred, depth+1) {
					found = true
					return true
				}
			}
		}
		return false
	})
	return found
}

// StaticGroup returns fn and the functions of its own package it calls statically, transitively
// up to the given depth (the pieces a function was split into by helper extraction).
func StaticGroup(fn *ssa.Function, depth int) []*ssa.Function {
	out := []*ssa.Function{fn}
	seen := map[*ssa.Function]bool{fn: true}
	frontier := []*ssa.Function{fn}
	for d := 0; d < depth; d++ {
		var next []*ssa.Function
		for _, f := range frontier {
			for _, g := range WithAnons(f) {
				for _, ci := range AllCalls(g) {
					ce := ci.Common().StaticCallee()
					if ce == nil || ce.Blocks == nil || seen[ce] || ce.Pkg != fn.Pkg {
						continue
					}
					seen[ce] = true
					out = append(out, ce)
					next = append(next, ce)
				}
			}
		}
		frontier = next
	}
	return out
}

// CopyOf reports whether v is (possibly through phis, conversions and local cells) a copy of a
// value satisfying pred: unlike DependsOn it does not pass through calls or arithmetic.
func CopyOf(v ssa.Value, pred func(ssa.Value) bool) bool {
	seen := map[ssa.Value]bool{}
	var rec func(ssa.Value, int) bool
	rec = func(x ssa.Value, d int) bool {
		if x == nil || seen[x] || d > 50 {
			return false
		}
		seen[x] = true
		if pred(x) {
			return true
		}
		switch y := x.(type) {
		case *ssa.Phi:
			for _, e := range y.Edges {
				if rec(e, d+1) {
					return true
				}
			}
		case *ssa.Convert:
			return rec(y.X, d+1)
		case *ssa.ChangeType:
			return rec(y.X, d+1)
		case *ssa.UnOp:
			if y.Op == token.MUL {
				if a, ok := y.X.(*ssa.Alloc); ok {
					if refs := a.Referrers(); refs != nil {
						for _, r := range *refs {
							if st, ok := r.(*ssa.Store); ok && st.Addr == a && rec(st.Val, d+1) {
								return true
							}
						}
					}
				}
			}
		}
		return false
	}
	return rec(v, 0)
}

// DeepInstr is an instruction of a function or of a same-package helper it calls (statements a
// refactoring moved into a new function), with the chain of call sites leading to it.
type DeepInstr struct {
	In    ssa.Instruction
	Fn    *ssa.Function
	Chain []ssa.CallInstruction // outermost call first; empty for the function's own instructions
}

// EachInstrDeep visits the instructions of fn (and its closures) and, for every static call to a
// same-package function with a body, that callee's instructions too, down to depth levels.
// A helper reached through several call sites is visited once per site.
func EachInstrDeep(fn *ssa.Function, depth int, visit func(DeepInstr)) {
	var rec func(f *ssa.Function, chain []ssa.CallInstruction, d int, onStack map[*ssa.Function]bool)
	rec = func(f *ssa.Function, chain []ssa.CallInstruction, d int, onStack map[*ssa.Function]bool) {
		for _, g := range WithAnons(f) {
			EachInstr(g, func(in ssa.Instruction) {
				visit(DeepInstr{In: in, Fn: g, Chain: chain})
				if d >= depth {
					return
				}
				ci, ok := in.(ssa.CallInstruction)
				if !ok {
					return
				}
				ce := ci.Common().StaticCallee()
				if ce == nil || ce.Blocks == nil || ce.Pkg != fn.Pkg || onStack[ce] || ce.Parent() != nil {
					return
				}
				onStack[ce] = true
				rec(ce, append(append([]ssa.CallInstruction{}, chain...), ci), d+1, onStack)
				delete(onStack, ce)
			})
		}
	}
	rec(fn, nil, 0, map[*ssa.Function]bool{fn: true})
}

// Resolve maps a value of the helper to the caller's value when it is a parameter of a function
// on the chain (innermost call first), repeatedly, looking through conversions.
func (d DeepInstr) Resolve(v ssa.Value) ssa.Value {
	for i := len(d.Chain) - 1; i >= 0; i-- {
		prm, ok := Unwrap(v).(*ssa.Parameter)
		if !ok {
			return v
		}
		ci := d.Chain[i]
		ce := ci.Common().StaticCallee()
		if ce == nil || prm.Parent() != ce {
			return v
		}
		args := ci.Common().Args
		found := false
		for k, q := range ce.Params {
			if q == prm && k < len(args) {
				v = args[k]
				found = true
			}
		}
		if !found {
			return v
		}
	}
	return v
}

// GuardedBy: the instruction is dominated by a guard satisfying pred inside its own function, or
// one of the calls on its chain is (the helper runs only behind that guard).
func (d DeepInstr) GuardedBy(pred func(cond ssa.Value, pol bool) bool) bool {
	if GuardedBy(d.In, pred) {
		return true
	}
	for _, ci := range d.Chain {
		if GuardedBy(ci, pred) {
			return true
		}
	}
	return false
}

// DeepPathQuery is PathQuery over a function with its same-package helpers inlined (see
// EachInstrDeep): a call to such a helper is followed into the helper's body and, at the
// helper's return, back to the instruction after the call. Start: after every instruction
// satisfying From (nil = the function's entry).
type DeepPathQuery struct {
	Root   *ssa.Function
	Depth  int
	From   func(DeepInstr) bool
	Stop   func(DeepInstr) bool
	Target func(DeepInstr) bool
	// StopEdge, when set, blocks following the edge from block b to its k-th successor.
	StopEdge func(b *ssa.BasicBlock, k int) bool
}

func inlinable(root *ssa.Function, ci ssa.CallInstruction, chain []ssa.CallInstruction, depth int) *ssa.Function {
	if len(chain) >= depth {
		return nil
	}
	if _, isCall := ci.(*ssa.Call); !isCall {
		return nil // go / defer run elsewhere
	}
	ce := ci.Common().StaticCallee()
	if ce == nil || ce.Blocks == nil || ce.Pkg != root.Pkg || ce == root || ce.Parent() != nil {
		return nil
	}
	for _, c := range chain {
		if c.Common().StaticCallee() == ce {
			return nil
		}
	}
	return ce
}

// Find returns the first target reachable, or nil.
func (q DeepPathQuery) Find() *DeepInstr {
	type state struct {
		chain []ssa.CallInstruction
		b     *ssa.BasicBlock
		i     int
	}
	chainKey := func(ch []ssa.CallInstruction) string {
		s := ""
		for _, c := range ch {
			s += fmt.Sprintf("%p/", c)
		}
		return s
	}
	var work []state
	if q.From == nil {
		work = append(work, state{nil, q.Root.Blocks[0], 0})
	} else {
		EachInstrDeep(q.Root, q.Depth, func(d DeepInstr) {
			if d.Fn.Parent() != nil {
				return // closures run on their own
			}
			if q.From(d) {
				work = append(work, state{d.Chain, d.In.Block(), idx(d.In) + 1})
			}
		})
	}
	visited := map[string]bool{}
	for len(work) > 0 {
		s := work[len(work)-1]
		work = work[:len(work)-1]
		k := fmt.Sprintf("%s|%p|%d", chainKey(s.chain), s.b, s.i)
		if visited[k] {
			continue
		}
		visited[k] = true
		fn := s.b.Parent()
		blocked, descended := false, false
		for i := s.i; i < len(s.b.Instrs); i++ {
			in := s.b.Instrs[i]
			d := DeepInstr{In: in, Fn: fn, Chain: s.chain}
			if q.Target != nil && q.Target(d) {
				return &d
			}
			if q.Stop != nil && q.Stop(d) {
				blocked = true
				break
			}
			if ci, ok := in.(ssa.CallInstruction); ok {
				if ce := inlinable(q.Root, ci, s.chain, q.Depth); ce != nil {
					work = append(work, state{append(append([]ssa.CallInstruction{}, s.chain...), ci), ce.Blocks[0], 0})
					descended = true
					break
				}
				// a call of a function-typed parameter that the chain binds to a closure of a caller
				if _, isCall := ci.(*ssa.Call); isCall && len(s.chain) > 0 && len(s.chain) < q.Depth+1 {
					if prm, isP := ci.Common().Value.(*ssa.Parameter); isP {
						if mc, isMC := d.Resolve(prm).(*ssa.MakeClosure); isMC {
							if cf, isF := mc.Fn.(*ssa.Function); isF && cf.Blocks != nil {
								work = append(work, state{append(append([]ssa.CallInstruction{}, s.chain...), ci), cf.Blocks[0], 0})
								descended = true
								break
							}
						}
					}
				}
			}
			if _, isRet := in.(*ssa.Return); isRet && len(s.chain) > 0 {
				call := s.chain[len(s.chain)-1]
				work = append(work, state{s.chain[:len(s.chain)-1], call.Block(), idx(call) + 1})
				descended = true
				break
			}
		}
		if blocked || descended {
			continue
		}
		for k, succ := range s.b.Succs {
			if q.StopEdge != nil && q.StopEdge(s.b, k) {
				continue
			}
			work = append(work, state{s.chain, succ, 0})
		}
	}
	return nil
}

// CountDeep counts the (instruction, call chain) pairs of fn's inlined view satisfying pred.
func CountDeep(fn *ssa.Function, depth int, pred func(DeepInstr) bool) int {
	n := 0
	EachInstrDeep(fn, depth, func(d DeepInstr) {
		if pred(d) {
			n++
		}
	})
	return n
}
