package model

import (
	"encoding/json"
	"fmt"
	"go/types"
	"os"
	"sort"
	"strings"

	"golang.org/x/tools/go/ssa"
)

// Anchor fall-back for renames. Rules name their anchors (a field, a method, a function) the way
// the reference tree names them. A consistent rename of an unexported identifier is a
// behaviour-preserving edit that must not make a rule undecided, so every successful lookup on
// the reference tree is recorded with a fingerprint (tables/anchors.json, regenerated with
// `lalcheck -gen-anchors`); when a later tree no longer has the name, the fingerprint picks the
// renamed object: a field that is new by name with the same type (same index preferred), a
// method/function that is new by name with the same signature and the most similar body
// references. Anything ambiguous stays undecided.

type fieldPrint struct {
	Index    int      `json:"index"`
	Type     string   `json:"type"`
	Siblings []string `json:"siblings"`
}

type funcPrint struct {
	Sig      string   `json:"sig"`
	Refs     []string `json:"refs"`
	Siblings []string `json:"siblings"`
}

type anchorTable struct {
	Fields map[string]fieldPrint `json:"fields"`
	Funcs  map[string]funcPrint  `json:"funcs"`
	// AllFuncs: names of the lal functions of the reference tree (to tell a function that an
	// edit introduced from one the reviewed-invariant table was written against)
	AllFuncs []string `json:"all_funcs,omitempty"`
}

var (
	// AnchorsPath is the table read on demand; RecordAnchors makes successful lookups be recorded.
	AnchorsPath   string
	RecordAnchors bool
	recorded      = anchorTable{Fields: map[string]fieldPrint{}, Funcs: map[string]funcPrint{}}
	loaded        *anchorTable
	// Renamed lists the fall-backs taken in this run (shown in the evidence).
	Renamed []string
)

func qual(p *types.Package) string { return p.Path() }

func loadAnchors() *anchorTable {
	if loaded != nil {
		return loaded
	}
	loaded = &anchorTable{Fields: map[string]fieldPrint{}, Funcs: map[string]funcPrint{}}
	if AnchorsPath == "" {
		return loaded
	}
	b, err := os.ReadFile(AnchorsPath)
	if err != nil {
		return loaded
	}
	_ = json.Unmarshal(b, loaded)
	return loaded
}

// SaveAnchors merges the recorded fingerprints into the table file.
func SaveAnchors(path string) error {
	t := anchorTable{Fields: map[string]fieldPrint{}, Funcs: map[string]funcPrint{}}
	if b, err := os.ReadFile(path); err == nil {
		_ = json.Unmarshal(b, &t)
	}
	for k, v := range recorded.Fields {
		t.Fields[k] = v
	}
	for k, v := range recorded.Funcs {
		t.Funcs[k] = v
	}
	if len(recorded.AllFuncs) > 0 {
		t.AllFuncs = recorded.AllFuncs
	}
	b, err := json.MarshalIndent(t, "", " ")
	if err != nil {
		return err
	}
	return os.WriteFile(path, b, 0644)
}

// RecordAllFuncs notes the reference tree's function names (with -gen-anchors).
func RecordAllFuncs(names []string) {
	sort.Strings(names)
	recorded.AllFuncs = names
}

// RefFuncs returns the reference tree's function names (nil when the table has none).
func RefFuncs() map[string]bool {
	t := loadAnchors()
	if len(t.AllFuncs) == 0 {
		return nil
	}
	m := map[string]bool{}
	for _, n := range t.AllFuncs {
		m[n] = true
	}
	return m
}

func structOf(n *types.Named) *types.Struct {
	st, _ := n.Underlying().(*types.Struct)
	return st
}

func (p *Prog) recordField(pkg, typ, field string, st *types.Struct, idx int) {
	if !RecordAnchors {
		return
	}
	var sib []string
	for i := 0; i < st.NumFields(); i++ {
		sib = append(sib, st.Field(i).Name())
	}
	recorded.Fields[pkg+"|"+typ+"|"+field] = fieldPrint{Index: idx, Type: types.TypeString(st.Field(idx).Type(), qual), Siblings: sib}
}

// fieldFallback finds the renamed field.
func (p *Prog) fieldFallback(pkg, typ, field string, st *types.Struct) *types.Var {
	fp, ok := loadAnchors().Fields[pkg+"|"+typ+"|"+field]
	if !ok {
		return nil
	}
	old := map[string]bool{}
	for _, s := range fp.Siblings {
		old[s] = true
	}
	var cands []int
	for i := 0; i < st.NumFields(); i++ {
		f := st.Field(i)
		if old[f.Name()] || types.TypeString(f.Type(), qual) != fp.Type {
			continue
		}
		cands = append(cands, i)
	}
	pick := -1
	switch {
	case len(cands) == 1:
		pick = cands[0]
	case len(cands) > 1:
		for _, c := range cands {
			if c == fp.Index {
				pick = c
			}
		}
	}
	if pick < 0 {
		return nil
	}
	Renamed = append(Renamed, fmt.Sprintf("field %s.%s.%s -> %s", pkg, typ, field, st.Field(pick).Name()))
	return st.Field(pick)
}

func sigString(f *types.Func) string {
	sig, _ := f.Type().(*types.Signature)
	if sig == nil {
		return ""
	}
	var b strings.Builder
	tup := func(t *types.Tuple) {
		b.WriteString("(")
		for i := 0; i < t.Len(); i++ {
			if i > 0 {
				b.WriteString(",")
			}
			b.WriteString(types.TypeString(t.At(i).Type(), qual))
		}
		b.WriteString(")")
	}
	tup(sig.Params())
	tup(sig.Results())
	if sig.Variadic() {
		b.WriteString("...")
	}
	return b.String()
}

// bodyRefs: what the function's body refers to (callees, fields), as a sorted set.
func (p *Prog) bodyRefs(f *types.Func) []string {
	fn := p.SSA.FuncValue(f)
	if fn == nil || fn.Blocks == nil {
		return nil
	}
	set := map[string]bool{}
	for _, g := range WithAnons(fn) {
		EachInstr(g, func(in ssa.Instruction) {
			switch x := in.(type) {
			case ssa.CallInstruction:
				if o := CalleeObj(x.Common()); o != nil {
					set["call:"+o.FullName()] = true
				} else if x.Common().IsInvoke() {
					set["invoke:"+x.Common().Method.Name()] = true
				}
			case *ssa.FieldAddr:
				if fv := FieldOf(x); fv != nil {
					set["field:"+fv.Name()] = true
				}
			case *ssa.Field:
				if fv := FieldOf(x); fv != nil {
					set["field:"+fv.Name()] = true
				}
			}
		})
	}
	var out []string
	for k := range set {
		out = append(out, k)
	}
	sort.Strings(out)
	return out
}

func (p *Prog) methodNames(n *types.Named) []string {
	var out []string
	ms := types.NewMethodSet(types.NewPointer(n))
	for i := 0; i < ms.Len(); i++ {
		if f, ok := ms.At(i).Obj().(*types.Func); ok && f.Pkg() == n.Obj().Pkg() {
			out = append(out, f.Name())
		}
	}
	if it, ok := n.Underlying().(*types.Interface); ok {
		for i := 0; i < it.NumMethods(); i++ {
			out = append(out, it.Method(i).Name())
		}
	}
	sort.Strings(out)
	return out
}

func (p *Prog) recordFunc(key string, f *types.Func, siblings []string) {
	if !RecordAnchors || f == nil {
		return
	}
	recorded.Funcs[key] = funcPrint{Sig: sigString(f), Refs: p.bodyRefs(f), Siblings: siblings}
}

func jaccard(a, b []string) float64 {
	if len(a) == 0 && len(b) == 0 {
		return 1
	}
	sa := map[string]bool{}
	for _, x := range a {
		sa[x] = true
	}
	inter, union := 0, len(sa)
	for _, x := range b {
		if sa[x] {
			inter++
		} else {
			union++
		}
	}
	if union == 0 {
		return 1
	}
	return float64(inter) / float64(union)
}

// funcFallback picks, among the candidates (functions that are new by name), the one with the
// recorded signature and the most similar body.
func (p *Prog) funcFallback(key string, cands []*types.Func) *types.Func {
	fp, ok := loadAnchors().Funcs[key]
	if !ok {
		return nil
	}
	old := map[string]bool{}
	for _, s := range fp.Siblings {
		old[s] = true
	}
	var best, second float64 = -1, -1
	var pick *types.Func
	n := 0
	for _, c := range cands {
		if old[c.Name()] || sigString(c) != fp.Sig {
			continue
		}
		n++
		s := jaccard(fp.Refs, p.bodyRefs(c))
		if s > best {
			second, best, pick = best, s, c
		} else if s > second {
			second = s
		}
	}
	if pick == nil {
		return nil
	}
	if n > 1 && (best < 0.5 || best-second < 0.2) {
		return nil
	}
	Renamed = append(Renamed, fmt.Sprintf("func %s -> %s", key, pick.Name()))
	return pick
}

func (p *Prog) methodCands(n *types.Named) []*types.Func {
	var out []*types.Func
	ms := types.NewMethodSet(types.NewPointer(n))
	for i := 0; i < ms.Len(); i++ {
		if f, ok := ms.At(i).Obj().(*types.Func); ok && f.Pkg() == n.Obj().Pkg() {
			out = append(out, f)
		}
	}
	return out
}

func (p *Prog) pkgFuncNames(pk *types.Package) ([]string, []*types.Func) {
	var names []string
	var fs []*types.Func
	for _, nm := range pk.Scope().Names() {
		if f, ok := pk.Scope().Lookup(nm).(*types.Func); ok {
			names = append(names, nm)
			fs = append(fs, f)
		}
	}
	return names, fs
}
