// Package report collects obligations, matches them against the committed tables
// (known findings, reviewed invariants) and writes the evidence / violation files.
package report

import (
	"encoding/json"
	"fmt"
	"os"
	"path/filepath"
	"sort"
	"strings"
	"time"
)

type Status string

const (
	Discharged Status = "discharged"
	Assumed    Status = "assumed"  // reviewed invariant (tables/reviewed_invariants.json)
	Known      Status = "known"    // known finding (tables/known_findings.json)
	Violated   Status = "violated" // undischarged and not listed
	Info       Status = "info"     // reported for information only, never a verdict
)

type Ob struct {
	Rule       string `json:"rule"`
	Key        string `json:"key"`
	Pos        string `json:"pos,omitempty"`
	Status     Status `json:"status"`
	Detail     string `json:"detail,omitempty"`
	NonTrivial bool   `json:"-"`
	// a requirement that a caller cannot establish: the caller, the linear form without its
	// constant, and the constant (form + K >= 0)
	ReqCaller string `json:"-"`
	ReqForm   string `json:"-"`
	ReqK      int64  `json:"-"`
}

type KnownFinding struct {
	Property string `json:"property"`
	Rule     string `json:"rule"`
	Key      string `json:"key"`
	What     string `json:"what"`
	Witness  string `json:"witness"`
}

type Reviewed struct {
	Property string `json:"property,omitempty"`
	Key      string `json:"key"`
	Assume   string `json:"assume"`
	Reason   string `json:"reason"`
	Against  string `json:"reviewed_against,omitempty"`
}

type Tables struct {
	Known    []KnownFinding `json:"known_findings"`
	Fixed    []string       `json:"fixed"`
	Reviewed []Reviewed     `json:"-"`
}

func LoadTables(dir string) (*Tables, error) {
	t := &Tables{}
	b, err := os.ReadFile(filepath.Join(dir, "known_findings.json"))
	if err != nil {
		return nil, err
	}
	if err := json.Unmarshal(b, t); err != nil {
		return nil, fmt.Errorf("known_findings.json: %v", err)
	}
	b, err = os.ReadFile(filepath.Join(dir, "reviewed_invariants.json"))
	if err != nil {
		return nil, err
	}
	var rv struct {
		Reviewed []Reviewed `json:"reviewed_invariants"`
	}
	if err := json.Unmarshal(b, &rv); err != nil {
		return nil, fmt.Errorf("reviewed_invariants.json: %v", err)
	}
	t.Reviewed = rv.Reviewed
	return t, nil
}

type Result struct {
	Prop        string
	Tier        string
	Seed        int
	Explanation string   // what clause is decided
	NotDecided  []string // what is not
	Assumptions []string
	RuleText    string
	Obs         []Ob
	Counters    map[string]int // functions_analysed, call_sites, ...
	Rules       map[string]string
	AllFuncs    map[string]bool // names (model.FnName) of every function of the loaded program
	// RefFuncs: the reference tree's lal functions (nil = unknown); StaticCallers[f] = functions
	// with a static call of f
	RefFuncs      map[string]bool
	StaticCallers map[string]map[string]bool
	start         time.Time
	keyCount      map[string]int
}

func New(prop, tier string, seed int) *Result {
	return &Result{Prop: prop, Tier: tier, Seed: seed, Counters: map[string]int{}, Rules: map[string]string{}, start: time.Now(), keyCount: map[string]int{}}
}

// Rule registers a rule's one-line statement (shown in the evidence).
func (r *Result) Rule(id, doc string) { r.Rules[id] = doc }

func (r *Result) Count(name string, n int) { r.Counters[name] += n }

// uniq appends an ordinal among equal keys: keys never depend on line numbers.
func (r *Result) uniq(key string) string {
	n := r.keyCount[key]
	r.keyCount[key] = n + 1
	return fmt.Sprintf("%s|%d", key, n)
}

func (r *Result) add(rule, key, pos string, st Status, detail string, nontrivial bool) {
	r.Obs = append(r.Obs, Ob{Rule: rule, Key: r.uniq(rule + "|" + key), Pos: pos, Status: st, Detail: detail, NonTrivial: nontrivial})
}

// Ok records a discharged obligation.
func (r *Result) Ok(rule, key, pos, detail string) { r.add(rule, key, pos, Discharged, detail, true) }

// Trivial records a discharged obligation that needed no reasoning (not counted as non-trivial).
func (r *Result) Trivial(rule, key, pos, detail string) {
	r.add(rule, key, pos, Discharged, detail, false)
}

// Bad records an undischarged obligation (becomes known/assumed when listed in the tables).
func (r *Result) Bad(rule, key, pos, detail string) { r.add(rule, key, pos, Violated, detail, true) }

// BadReq records a requirement that the named caller cannot establish (form + k >= 0).
func (r *Result) BadReq(rule, key, pos, detail, caller, form string, k int64) {
	r.add(rule, key, pos, Violated, detail, true)
	o := &r.Obs[len(r.Obs)-1]
	o.ReqCaller, o.ReqForm, o.ReqK = caller, form, k
}

// reqMatches: a requirement that a caller cannot establish is covered by a reviewed entry when
// an entry matched, by key, the same or a stronger requirement on the same quantity at the same
// call site of that caller (form + k' >= 0 with k' <= k): it is the same assumption about that call, reached
// from another access (a helper the statements were moved to, an index that is now a variable).
func (r *Result) reqMatches(direct map[int]Reviewed, open []int) map[int]Reviewed {
	out := map[int]Reviewed{}
	for _, i := range open {
		o := &r.Obs[i]
		if o.ReqCaller == "" {
			continue
		}
		for j, rv := range direct {
			d := &r.Obs[j]
			// only entries written for that caller: a wildcard entry ("@*", "|*") states an
			// invariant of the callee's class that is conditional on how the callee is reached
			if strings.HasSuffix(rv.Key, "*") {
				continue
			}
			if d.ReqCaller == o.ReqCaller && d.ReqForm == o.ReqForm && d.ReqK <= o.ReqK && d.Rule == o.Rule {
				out[i] = rv
				break
			}
		}
	}
	return out
}

// Assume records an obligation that a rule accepts on the strength of an exception frozen in
// the checker's own table (with its reason); it is counted as assumed, never as discharged.
func (r *Result) Assume(rule, key, pos, detail string) { r.add(rule, key, pos, Assumed, detail, true) }

// Note records an informational item.
func (r *Result) Note(rule, key, pos, detail string) { r.add(rule, key, pos, Info, detail, false) }

// Check is Ok/Bad by condition.
func (r *Result) Check(cond bool, rule, key, pos, okDetail, badDetail string) bool {
	if cond {
		r.Ok(rule, key, pos, okDetail)
	} else {
		r.Bad(rule, key, pos, badDetail)
	}
	return cond
}

// Violations counts the obligations that stay violated once the tables (known findings,
// reviewed invariants) are taken into account.
func (r *Result) Violations(t *Tables) int {
	known := map[string]bool{}
	for _, k := range t.Known {
		if k.Property == r.Prop {
			known[k.Key] = true
		}
	}
	reviewed := map[string]Reviewed{}
	for _, k := range t.Reviewed {
		reviewed[k.Key] = k
	}
	used := map[string]bool{}
	direct := map[int]Reviewed{}
	var open []int
	for i, o := range r.Obs {
		if o.Status != Violated || known[o.Key] {
			continue
		}
		if rv, ok := lookupReviewed(reviewed, t.Reviewed, o.Key); ok {
			used[rv.Key] = true
			direct[i] = rv
			continue
		}
		open = append(open, i)
	}
	byReq := r.reqMatches(direct, open)
	var rest []int
	for _, i := range open {
		if _, ok := byReq[i]; !ok {
			rest = append(rest, i)
		}
	}
	return len(rest) - len(r.budgetMatches(t, used, rest))
}

// keyParts splits an obligation key "rule|fn|kind|expr[@caller]|ordinal".
func keyParts(key string) (rule, fn, kind string, hasAt, ok bool) {
	p := strings.SplitN(key, "|", 4)
	if len(p) < 4 {
		return "", "", "", false, false
	}
	return p[0], p[1], p[2], strings.Contains(p[3], "@"), true
}

// budgetMatches: a reviewed entry is about an obligation of one function; its key carries the
// expression text, which a behaviour-preserving edit (renamed field or local, hoisted
// sub-expression, renamed function) changes. An obligation that no entry matches may therefore
// take over an entry of the same kind that matched nothing in this run when it belongs to the same function (or
// the entry's function no longer exists and the kind is the same) and agrees on being a
// caller-side requirement or not. One entry covers one obligation: an additional unproved
// obligation in the function finds no free entry and is reported.
func (r *Result) budgetMatches(t *Tables, used map[string]bool, open []int) map[int]Reviewed {
	out := map[int]Reviewed{}
	if len(open) == 0 {
		return out
	}
	// a function "no longer exists" when the program has no function of that name (the set is
	// filled by the driver from the loaded program; without it nothing counts as gone)
	live := r.AllFuncs
	if live == nil {
		return out
	}
	taken := map[string]bool{}
	// an entry "<obligation>@*" stands for one obligation at whichever caller its requirement
	// surfaces: once it is taken over by a renamed obligation, it covers that obligation at its
	// other callers too
	starFor := map[string]Reviewed{} // obligation key up to '@' -> the @* entry it took
	originOf := func(key string) string {
		if i := strings.Index(key, "@"); i > 0 {
			return key[:i]
		}
		return key
	}
	for _, i := range open {
		rule, fn, kind, hasAt, ok := keyParts(r.Obs[i].Key)
		if !ok {
			continue
		}
		if e, again := starFor[originOf(r.Obs[i].Key)]; again && hasAt {
			out[i] = e
			continue
		}
		// a function-wide entry "rule|fn|*" (a class invariant that holds throughout fn) also holds
		// in a helper the edit carved out of fn: a function the reference tree does not have,
		// statically called from fn
		covered := false
		for _, e := range t.Reviewed {
			if !strings.HasSuffix(e.Key, "|*") || r.RefFuncs == nil || r.RefFuncs[fn] {
				continue
			}
			parts := strings.Split(strings.TrimSuffix(e.Key, "|*"), "|")
			if len(parts) != 2 {
				continue
			}
			erule, efn := parts[0], parts[1]
			if erule != rule && !(strings.HasPrefix(erule, "*.") && strings.HasSuffix(rule, erule[1:])) {
				continue
			}
			if r.calledFrom(fn, efn, 2) {
				out[i] = e
				covered = true
				break
			}
		}
		if covered {
			continue
		}
		for _, e := range t.Reviewed {
			if used[e.Key] || taken[e.Key] || strings.HasSuffix(e.Key, "|*") {
				continue
			}
			erule, efn, ekind, eAt, eok := keyParts(e.Key)
			if !eok {
				continue
			}
			if erule != rule && !(strings.HasPrefix(erule, "*.") && strings.HasSuffix(rule, erule[1:])) {
				continue
			}
			// statements moved into a helper that the edit introduced: the obligation now belongs
			// to a function the reference tree does not have, called from the entry's function
			extracted := r.RefFuncs != nil && !r.RefFuncs[fn] && ekind == kind && r.calledFrom(fn, efn, 2)
			if eAt != hasAt && !extracted {
				continue
			}
			if (efn == fn && ekind == kind) || (!live[efn] && ekind == kind) || extracted {
				taken[e.Key] = true
				out[i] = e
				if strings.HasSuffix(e.Key, "@*") && hasAt {
					starFor[originOf(r.Obs[i].Key)] = e
				}
				break
			}
		}
	}
	return out
}

// calledFrom: fn is statically called from caller, directly or through at most depth-1
// functions that are themselves new.
func (r *Result) calledFrom(fn, caller string, depth int) bool {
	if depth == 0 {
		return false
	}
	for c := range r.StaticCallers[fn] {
		if c == caller {
			return true
		}
		if !r.RefFuncs[c] && r.calledFrom(c, caller, depth-1) {
			return true
		}
	}
	return false
}

// Finish applies the tables, prints the verdict lines, writes evidence, returns exit code.
func (r *Result) Finish(t *Tables, evidenceDir string) int {
	known := map[string]KnownFinding{}
	for _, k := range t.Known {
		if k.Property == r.Prop {
			known[k.Key] = k
		}
	}
	reviewed := map[string]Reviewed{}
	for _, k := range t.Reviewed {
		reviewed[k.Key] = k
	}
	usedKnown := map[string]bool{}
	usedRv := map[string]bool{}
	direct := map[int]Reviewed{}
	var open []int
	for i := range r.Obs {
		o := &r.Obs[i]
		if o.Status != Violated {
			continue
		}
		if k, ok := known[o.Key]; ok {
			o.Status = Known
			o.Detail = o.Detail + " [known finding: " + k.What + "]"
			usedKnown[o.Key] = true
		} else if rv, ok := lookupReviewed(reviewed, t.Reviewed, o.Key); ok {
			usedRv[rv.Key] = true
			direct[i] = rv
			o.Status = Assumed
			o.Detail = o.Detail + " [reviewed invariant: " + rv.Assume + " — " + rv.Reason + "]"
		} else {
			open = append(open, i)
		}
	}
	byReq := r.reqMatches(direct, open)
	var rest []int
	for _, i := range open {
		rv, ok := byReq[i]
		if !ok {
			rest = append(rest, i)
			continue
		}
		o := &r.Obs[i]
		o.Status = Assumed
		o.Detail = o.Detail + " [the same requirement at the same caller as reviewed entry " + rv.Key + ": " + rv.Assume + " — " + rv.Reason + "]"
	}
	open = rest
	for i, rv := range r.budgetMatches(t, usedRv, open) {
		o := &r.Obs[i]
		usedRv[rv.Key] = true
		o.Status = Assumed
		o.Detail = o.Detail + " [reviewed invariant of this function, entry " + rv.Key + " (its expression text no longer occurs; matched by function): " + rv.Assume + " — " + rv.Reason + "]"
	}
	if os.Getenv("LALCHECK_USED_REVIEWED") != "" {
		for k := range usedRv {
			fmt.Printf("USED-REVIEWED\t%s\n", k)
		}
	}
	var nObl, nDis, nAss, nKnown, nViol, nNontriv int
	distinct := map[string]bool{}
	var viol []Ob
	for i := range r.Obs {
		o := &r.Obs[i]
		if o.Status == Info {
			continue
		}
		nObl++
		switch o.Status {
		case Discharged:
			nDis++
		case Assumed:
			nAss++
		case Known:
			nKnown++
		case Violated:
			nViol++
			viol = append(viol, *o)
		}
		if o.NonTrivial && !distinct[o.Key] {
			distinct[o.Key] = true
			nNontriv++
		}
	}
	// verdict lines
	var kfs []string
	for key := range usedKnown {
		kfs = append(kfs, key)
	}
	sort.Strings(kfs)
	for _, key := range kfs {
		fmt.Printf("KNOWN-FINDING: property=%s %s [%s]\n", r.Prop, known[key].What, key)
	}
	violPath := filepath.Join(evidenceDir, r.Prop+".violations.json")
	if nViol > 0 {
		sort.Slice(viol, func(i, j int) bool { return viol[i].Key < viol[j].Key })
		b, _ := json.MarshalIndent(map[string]interface{}{"property_id": r.Prop, "violations": viol}, "", " ")
		_ = os.MkdirAll(evidenceDir, 0o755)
		_ = os.WriteFile(violPath, append(b, '\n'), 0o644)
		for _, v := range viol {
			fmt.Printf("  violated %s at %s: %s\n", v.Key, v.Pos, v.Detail)
		}
		fmt.Printf("VIOLATION property=%s replay=%s\n", r.Prop, violPath)
	} else {
		_ = os.Remove(violPath)
	}

	if os.Getenv("LALCHECK_ALLOBS") != "" {
		for _, o := range r.Obs {
			fmt.Printf("OB %s %s %s :: %s\n", o.Status, o.Key, o.Pos, o.Detail)
		}
	}
	// samples: a few of each status, preferring non-trivial ones
	var samples []interface{}
	perRule := map[string]int{}
	for _, o := range r.Obs {
		if o.Status == Info && perRule["info:"+o.Rule] >= 3 {
			continue
		}
		tag := string(o.Status) + ":" + o.Rule
		lim := 2
		if o.Status == Violated || o.Status == Known || o.Status == Assumed {
			lim = 50
		}
		if perRule[tag] >= lim {
			continue
		}
		perRule[tag]++
		samples = append(samples, o)
	}
	var ruleIDs []string
	for id := range r.Rules {
		ruleIDs = append(ruleIDs, id)
	}
	sort.Strings(ruleIDs)
	var ruleDocs []string
	perRuleCount := map[string]map[string]int{}
	for _, o := range r.Obs {
		m := perRuleCount[o.Rule]
		if m == nil {
			m = map[string]int{}
			perRuleCount[o.Rule] = m
		}
		m[string(o.Status)]++
	}
	for _, id := range ruleIDs {
		ruleDocs = append(ruleDocs, id+": "+r.Rules[id])
	}
	expl := r.Explanation
	if len(r.NotDecided) > 0 {
		expl += " NOT DECIDED: " + strings.Join(r.NotDecided, "; ") + "."
	}
	cov := map[string]interface{}{
		"explanation":         expl,
		"obligations":         nObl,
		"discharged":          nDis,
		"assumed":             nAss,
		"known_findings":      nKnown,
		"evaluations":         len(r.Obs),
		"distinct_nontrivial": nNontriv,
		"rule":                "obligations are enumerated from the type-checked SSA of /repo's working tree by the rules listed under 'rules'; one obligation per (rule, construct); distinct = distinct obligation keys; non-trivial = needed a dominance/path/dataflow/agreement argument (constant-index and by-construction discharges excluded). " + r.RuleText,
		"rules":               ruleDocs,
		"per_rule":            perRuleCount,
		"samples":             samples,
		"exhaustive":          true,
		"checker_cmd":         "/verif/bin/lalcheck -prop " + r.Prop + " -tier " + r.Tier,
		"trusted_base":        []string{"go/types, go/ssa, VTA call graph (x/tools v0.29.0)", "tables/reviewed_invariants.json", "tables/contracts (library leaf contracts in the checker)"},
	}
	for k, v := range r.Counters {
		cov[k] = v
	}
	assumptions := r.Assumptions
	if assumptions == nil {
		assumptions = []string{}
	}
	assumptions = append(assumptions, "go/types, go/ssa and the VTA call graph of golang.org/x/tools v0.29.0 model /repo's source faithfully")
	ev := map[string]interface{}{
		"property_id": r.Prop,
		"tier":        r.Tier,
		"seed":        r.Seed,
		"level":       "other",
		"coverage":    cov,
		"assumptions": assumptions,
		"wall_s":      time.Since(r.start).Seconds(),
		"violations":  nViol,
	}
	b, _ := json.MarshalIndent(ev, "", " ")
	_ = os.MkdirAll(evidenceDir, 0o755)
	if err := os.WriteFile(filepath.Join(evidenceDir, r.Prop+".json"), append(b, '\n'), 0o644); err != nil {
		fmt.Fprintf(os.Stderr, "write evidence: %v\n", err)
		return 2
	}
	fmt.Printf("%s tier=%s obligations=%d discharged=%d assumed=%d known=%d violated=%d wall=%.1fs\n",
		r.Prop, r.Tier, nObl, nDis, nAss, nKnown, nViol, time.Since(r.start).Seconds())
	if nViol > 0 {
		return 1
	}
	return 0
}

// lookupReviewed matches an obligation key against the reviewed-invariant table: exactly, or
// by an entry "<rule>|<function>|*" that covers every obligation of that rule inside that one
// named function (never wider than one function).
func lookupReviewed(exact map[string]Reviewed, all []Reviewed, key string) (Reviewed, bool) {
	if rv, ok := exact[key]; ok {
		return rv, true
	}
	// an entry whose key starts with "*." holds for the same obligation under any property's
	// engine-B rule (the obligation is a fact about the function, not about the property)
	if i := strings.Index(key, "."); i > 0 {
		star := "*" + key[i:]
		if rv, ok := exact[star]; ok {
			return rv, true
		}
		if key[0] != '*' {
			if rv, ok := lookupReviewed(exact, all, star); ok {
				return rv, true
			}
		}
	}
	// "<obligation>@*": the requirement of one named obligation, at whichever caller it surfaces
	if i := strings.Index(key, "@"); i > 0 {
		if rv, ok := exact[key[:i]+"@*"]; ok {
			return rv, true
		}
	}
	for _, rv := range all {
		// keys of requirements that fail at a caller ("...@caller") need an exact or an "@*" entry
		if strings.HasSuffix(rv.Key, "|*") && strings.Count(rv.Key, "|") == 2 && !strings.Contains(key, "@") && strings.HasPrefix(key, strings.TrimSuffix(rv.Key, "*")) {
			return rv, true
		}
	}
	return Reviewed{}, false
}
