#!/usr/bin/env python3
"""mk.py PROP NAME FILE OLD NEW [FILE OLD NEW ...] — create selftest/variants/PROP__NAME.patch
by replacing exactly one occurrence of OLD by NEW in /repo/FILE (in memory; /repo is not touched)."""
import sys, difflib, os
prop, name = sys.argv[1], sys.argv[2]
rest = sys.argv[3:]
out = []
by_file = {}
for i in range(0, len(rest), 3):
    f, old, new = rest[i], rest[i+1], rest[i+2]
    src = by_file.get(f) or open('/repo/' + f).read()
    n = src.count(old)
    if n != 1:
        sys.exit("%s: %d occurrences of %r" % (f, n, old))
    by_file.setdefault('orig:' + f, open('/repo/' + f).read())
    by_file[f] = src.replace(old, new)
for f in [k for k in by_file if not k.startswith('orig:')]:
    a = by_file['orig:' + f].splitlines(keepends=True)
    b = by_file[f].splitlines(keepends=True)
    out += list(difflib.unified_diff(a, b, 'a/' + f, 'b/' + f))
p = os.path.join(os.path.dirname(os.path.abspath(__file__)), 'variants', '%s__%s.patch' % (prop, name))
open(p, 'w').write(''.join(out))
print(p)
