#!/bin/bash
# selftest/run.sh [-b] [pattern] — for every variants/<PROP>__<name>.patch matching pattern:
# copy /repo's working tree to a fresh scratch dir, apply the one-hunk variant, (with -b also
# `go build ./...` it), run lalcheck for <PROP> on the copy, expect exit 1 + VIOLATION, remove the copy.
# Variants named <PROP>__ok_<name>.patch are behaviour-preserving edits that must stay silent (exit 0).
export GOFLAGS=-mod=mod GOPROXY=off GOSUMDB=off GOTOOLCHAIN=local; unset GOWORK
BUILD=0; [ "$1" = "-b" ] && { BUILD=1; shift; }
PAT="${1:-}"
HERE="$(cd "$(dirname "$0")" && pwd)"
REPO="${VERIF_REPO:-/repo}"
pass=0; fail=0
for v in "$HERE"/variants/*${PAT}*.patch; do
  [ -e "$v" ] || continue
  b=$(basename "$v" .patch); prop=${b%%__*}; name=${b#*__}
  d=$(mktemp -d /tmp/lalvar.XXXXXX)
  rsync -a --exclude .git "$REPO"/ "$d"/
  if ! (cd "$d" && patch -p1 -s --no-backup-if-mismatch < "$v" >/dev/null 2>&1); then
    echo "SKIP  $b (patch does not apply)"; rm -rf "$d"; continue
  fi
  if [ $BUILD = 1 ]; then
    if ! (cd "$d" && go build ./... 2>&1 | tail -3); then echo "NOBUILD $b"; fi
  fi
  outp=$("$HERE"/../bin/lalcheck -prop "$prop" -repo "$d" -out "$d/.ev" 2>&1); code=$?
  want=1; case "$name" in ok_*) want=0;; esac
  if [ $code = $want ]; then
    pass=$((pass+1)); echo "PASS  $b (exit $code) $(echo "$outp" | grep -m1 'violated' | cut -c1-160)"
  else
    fail=$((fail+1)); echo "FAIL  $b: expected exit $want got $code"; echo "$outp" | tail -5
  fi
  rm -rf "$d"
done
echo "selftest: pass=$pass fail=$fail"
[ $fail = 0 ]
