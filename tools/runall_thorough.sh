#!/bin/bash
# runs every claimed check in the thorough tier into a scratch evidence dir (the committed
# evidence stays the quick one) and prints the verdict line of each
export GOFLAGS=-mod=mod GOPROXY=off GOSUMDB=off GOTOOLCHAIN=local; unset GOWORK
out=$(mktemp -d /tmp/evthorough.XXXXXX)
for p in $(python3 -c "import json;print(' '.join(c['property_id'] for c in json.load(open('/verif/MANIFEST.json'))['checks']))"); do
  /verif/bin/lalcheck -prop $p -tier thorough -out $out 2>&1 | grep "AUDIT-WARNING\|VIOLATION\|UNDECIDED\|tier=" | cut -c1-300
done
python3 - "$out" <<'PY'
import json,sys,glob
for f in sorted(glob.glob(sys.argv[1]+'/C??.json')):
    c=json.load(open(f))['coverage']
    print(f[-8:-5], {k:v for k,v in c.items() if k.startswith('audit') or k=='build_targets_analysed'})
PY
rm -rf $out
