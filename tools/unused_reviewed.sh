#!/bin/bash
# Lists reviewed-invariant entries that no obligation of any property matches any more (to prune).
cd /verif
for i in $(seq -w 1 20); do LALCHECK_USED_REVIEWED=1 bin/lalcheck -prop C$i -out /tmp/unused_ev | grep "^USED-REVIEWED" | cut -f2; done | sort -u > /tmp/used_reviewed.txt
python3 - <<'PY'
import json
used=set(l.rstrip('\n') for l in open('/tmp/used_reviewed.txt'))
d=json.load(open('/verif/tables/reviewed_invariants.json'))
un=[e['key'] for e in d['reviewed_invariants'] if e['key'] not in used]
print(len(d['reviewed_invariants']),'entries,',len(un),'unused'); [print(' ',u) for u in un]
PY
rm -rf /tmp/unused_ev /tmp/used_reviewed.txt
