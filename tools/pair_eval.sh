#!/bin/bash
# pair_eval.sh ID [PROPS...] : ID = Cxx_X with seeded/ID/patch.diff (defect hidden in a refactoring) and
# repaired/ID/patch.diff (the same refactoring without the defect). Runs the given properties' checks
# (default: all 20) on both copies and prints the violated keys only the defect has, those both
# have (noise of the refactoring = false alarms) and those only the repaired copy has.
export GOFLAGS=-mod=mod GOPROXY=off GOSUMDB=off GOTOOLCHAIN=local; unset GOWORK
id=$1; shift
props="$@"; [ -z "$props" ] && props=$(for i in $(seq -w 1 20); do echo C$i; done)
run() { # dir patch -> file of keys
  d=$(mktemp -d /tmp/lalpair.XXXXXX); rsync -a --exclude .git /repo/ $d/
  (cd $d && patch -p1 -s --no-backup-if-mismatch < $1 >/dev/null 2>&1) || { echo "PATCH FAILS $1"; rm -rf $d; return; }
  for p in $props; do ( ${LALCHECK_BIN:-/verif/bin/lalcheck} -prop $p -repo $d -out $d/.ev$p > $d/.out$p 2>&1 ) & done; wait
  cat $d/.out* | grep -a "^  violated\|^UNDECIDED" | sed 's/^  violated //' | awk '{print $1}' | sort -u > $2
  cat $d/.out* | grep -a "^  violated\|^UNDECIDED" | sed 's/^  violated //' > $2.full
  rm -rf $d
}
run /verif/seeded/$id/patch.diff /tmp/pair_$id.def
run /verif/repaired/$id/patch.diff /tmp/pair_$id.rep
echo "== $id  defect-only:"; comm -23 /tmp/pair_$id.def /tmp/pair_$id.rep | sed 's/^/   D /'
echo "   both (false alarms):"; comm -12 /tmp/pair_$id.def /tmp/pair_$id.rep | sed 's/^/   B /'
echo "   repaired-only (false alarms):"; comm -13 /tmp/pair_$id.def /tmp/pair_$id.rep | sed 's/^/   R /'
