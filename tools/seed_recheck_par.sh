#!/bin/bash
# seed_recheck_par.sh [pattern] : like seed_recheck.sh but on scratch copies of /repo (never touches
# /repo itself), 6 seeds at a time. Records "detected_by" in each meta.json and prints one line per seed.
export GOFLAGS=-mod=mod GOPROXY=off GOSUMDB=off GOTOOLCHAIN=local; unset GOWORK
cd /verif
one() {
  d=$1; id=$(basename $d); prop=${id%%_*}
  [ -f $d/patch.diff ] || exit 0
  also=$(python3 -c "import json;print(' '.join(json.load(open('$d/meta.json')).get('also_check',[])))")
  w=$(mktemp -d /tmp/lalseed.XXXXXX); rsync -a --exclude .git /repo/ $w/
  if ! (cd $w && patch -p1 -s --no-backup-if-mismatch < /verif/$d/patch.diff >/dev/null 2>&1); then echo "$id: PATCH DOES NOT APPLY"; rm -rf $w; exit 0; fi
  det=""; first=""
  for pp in $prop $also; do
    out=$(${LALCHECK_BIN:-/verif/bin/lalcheck} -prop $pp -repo $w -out $w/.ev 2>&1); code=$?
    [ $code = 1 ] && det="$det $pp" && first=$(echo "$out" | grep -a -m1 violated | cut -c1-200)
    [ $code -gt 1 ] && echo "$id: lalcheck $pp exit $code: $(echo "$out" | tail -2)"
  done
  rm -rf $w
  python3 - "$d/meta.json" "$det" <<'PY'
import json,sys
m=json.load(open(sys.argv[1])); m['detected_by']=sys.argv[2].split(); json.dump(m,open(sys.argv[1],'w'),indent=1)
PY
  if [ -n "$det" ]; then echo "$id: DETECTED by$det | $first"; else echo "$id: missed"; fi
}
export -f one
ls -d seeded/*${1}*/ | sed 's,/$,,' | xargs -P 6 -I{} bash -c 'one {}'
