#!/bin/bash
# benign_eval.sh DIR : DIR holds patch.diff of a behaviour-preserving change. Applies it to a scratch
# copy of /repo, builds, and runs every property's quick check on the copy; prints the properties
# that alarm (each one is a false alarm to triage, or the change is not behaviour-preserving).
export GOFLAGS=-mod=mod GOPROXY=off GOSUMDB=off GOTOOLCHAIN=local; unset GOWORK
src=$(cd "$1" && pwd)
d=$(mktemp -d /tmp/lalben.XXXXXX)
rsync -a --exclude .git /repo/ $d/
if ! (cd $d && patch -p1 -s --no-backup-if-mismatch < $src/patch.diff >/dev/null 2>&1); then echo "$src: PATCH DOES NOT APPLY"; rm -rf $d; exit 3; fi
if ! (cd $d && go build ./... >/dev/null 2>&1); then echo "$src: DOES NOT BUILD"; rm -rf $d; exit 3; fi
alarms=""
for i in $(seq -w 1 20); do
  ( /verif/bin/lalcheck -prop C$i -repo $d -out $d/.ev$i > $d/.out$i 2>&1; echo $? > $d/.code$i ) &
  if (( 10#$i % 8 == 0 )); then wait; fi
done
wait
for i in $(seq -w 1 20); do
  code=$(cat $d/.code$i)
  if [ "$code" != 0 ]; then alarms="$alarms C$i($code)"; grep -m3 "violated" $d/.out$i | cut -c1-260 | sed "s/^/      /" > $d/.v$i; fi
done
if [ -z "$alarms" ]; then echo "$src: silent"; else echo "$src: ALARMS:$alarms"; cat $d/.v* 2>/dev/null; fi
rm -rf $d
