#!/bin/bash
# seed_eval.sh PROP X DEMO_DEST_RELPATH TESTPKG TESTRE [EXTRA_PROPS...]
# Confirms a seeded change from /tmp/seed_PROP/X in a scratch worktree of /repo (suite passes
# with it, demo passes without and fails with it), runs lalcheck for PROP (and extra props) on
# the changed copy, and on confirmation stores it under /verif/seeded/PROP_X/.
export GOFLAGS=-mod=mod GOPROXY=off GOSUMDB=off GOTOOLCHAIN=local; unset GOWORK
prop=$1; x=$2; dest=$3; pkg=$4; re=$5; shift 5
src=${SEED_SRC:-/tmp/seed_$prop/$x}
as=${SEED_AS:-$x}
w=$(mktemp -d /tmp/sv.XXXXXX); rmdir $w
git -C /repo worktree add -q --detach $w HEAD || exit 2
cleanup() { git -C /repo worktree remove --force $w 2>/dev/null; }
trap cleanup EXIT
demo=$(ls $src/*.go | head -1)
ddir=$(dirname $dest)
putdemo() { mkdir -p $w/$ddir; for f in $src/*.go; do cp $f $w/$ddir/; done; }
rmdemo() { for f in $src/*.go; do rm -f $w/$ddir/$(basename $f); done; }
putdemo
cd $w
base=$(go test $SEED_TESTFLAGS -vet=off -count=1 -run "$re" $pkg 2>&1 | tail -3)
echo "$base" | grep -q "^ok" && bres=pass || bres=FAIL
if ! git apply $src/patch.diff 2>/tmp/apply.err; then echo "PATCH DOES NOT APPLY: $(cat /tmp/apply.err | head -2)"; exit 3; fi
go build ./... 2>&1 | tail -2
rmdemo
suite=$(go test -vet=off -count=1 ./... 2>&1 | grep -v "^ok\|no test files" | head -5)
[ -z "$suite" ] && sres=pass || sres="FAIL: $suite"
putdemo
with=$(go test $SEED_TESTFLAGS -vet=off -count=1 -run "$re" $pkg 2>&1 | tail -4)
echo "$with" | grep -q "^ok" && wres=pass || wres=FAIL
rmdemo
echo "demo without patch: $bres | suite with patch: $sres | demo with patch: $wres"
det=""
for pp in $prop "$@"; do
  out=$(/verif/bin/lalcheck -prop $pp -repo $w -out $w/.ev 2>&1); code=$?
  echo "lalcheck $pp exit=$code $(echo "$out" | grep -m2 violated | cut -c1-230)"
  [ $code = 1 ] && det="$det $pp"
done
if [ "$bres" = pass ] && [ "$sres" = pass ] && [ "$wres" = FAIL ]; then
  d=/verif/seeded/${prop}_$as; mkdir -p $d
  cp $src/patch.diff $d/patch.diff; cp $src/*.go $d/; cp $src/demo.txt $d/demo.txt 2>/dev/null
  python3 - "$prop" "$as" "$dest" "$pkg" "$re" "$det" "$src/meta.txt" <<'PY'
import json,sys
prop,x,dest,pkg,re_,det,meta=sys.argv[1:8]
m={"property":prop,"variant":x,"demo_file_destination":dest,"demo_cmd":"go test -vet=off -count=1 -run '%s' %s"%(re_,pkg),
   "needs_to_manifest":open(meta).read().strip() if meta else "",
   "confirmed":{"suite_with_patch":"pass","demo_without_patch":"pass","demo_with_patch":"fail"},
   "detected_by":det.split()}
json.dump(m,open('/verif/seeded/%s_%s/meta.json'%(prop,x),'w'),indent=1)
PY
  echo "CONFIRMED -> /verif/seeded/${prop}_$as detected_by:[$det ]"
else
  echo "NOT CONFIRMED"
fi
