#!/bin/bash
# seed_recheck.sh [pattern] : for every /verif/seeded/<id>/ apply patch.diff to /repo, run the
# check of its property (plus any props listed in meta.json "also_check"), undo, and record
# which checks fired in meta.json "detected_by". /repo is restored even on failure.
cd /verif
restore() { git -C /repo checkout -q -- . ; }
trap restore EXIT
if [ -n "$(git -C /repo status --porcelain --untracked-files=no)" ]; then echo "/repo not clean"; exit 2; fi
for d in seeded/*${1}*/; do
  id=$(basename $d); prop=${id%%_*}
  [ -f $d/patch.diff ] || continue
  also=$(python3 -c "import json;print(' '.join(json.load(open('$d/meta.json')).get('also_check',[])))")
  if ! git -C /repo apply /verif/$d/patch.diff 2>/dev/null; then echo "$id: PATCH DOES NOT APPLY"; continue; fi
  det=""
  for pp in $prop $also; do
    out=$(bin/lalcheck -prop $pp -out /tmp/seed_ev 2>&1); code=$?
    [ $code = 1 ] && det="$det $pp" && first=$(echo "$out" | grep -m1 violated | cut -c1-200)
    [ $code -gt 1 ] && echo "$id: lalcheck $pp exit $code: $(echo "$out" | tail -2)"
  done
  restore
  python3 - "$d/meta.json" "$det" <<'PY'
import json,sys
m=json.load(open(sys.argv[1])); m['detected_by']=sys.argv[2].split(); json.dump(m,open(sys.argv[1],'w'),indent=1)
PY
  if [ -n "$det" ]; then echo "$id: DETECTED by$det | $first"; else echo "$id: missed"; fi
done
rm -rf /tmp/seed_ev
