#!/bin/bash
# seed_try.sh ID PROPS... : apply seeded/ID/patch.diff to a scratch copy of /repo, run the given
# properties' quick checks (LALCHECK_BIN, default bin/lalcheck) and print what they report.
export GOFLAGS=-mod=mod GOPROXY=off GOSUMDB=off GOTOOLCHAIN=local; unset GOWORK
id=$1; shift
d=$(mktemp -d /tmp/laltry.XXXXXX); rsync -a --exclude .git /repo/ $d/
(cd $d && patch -p1 -s --no-backup-if-mismatch < /verif/seeded/$id/patch.diff >/dev/null 2>&1) || { echo "PATCH FAILS"; rm -rf $d; exit 2; }
for p in "$@"; do ( ${LALCHECK_BIN:-/verif/bin/lalcheck} -prop $p -repo $d -out $d/.ev$p > $d/.out$p 2>&1 ) & done; wait
cat $d/.out* | grep -a "^  violated\|^UNDECIDED\|tier=" | cut -c1-400
rm -rf $d
