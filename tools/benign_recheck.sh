#!/bin/bash
# benign_recheck.sh [pattern]: every /verif/benign/<id>/patch.diff is a behaviour-preserving change
# written by a sub-agent that saw only the property text; all checks must stay silent on it.
cd /verif
n=0; bad=0
for d in benign/*${1}*/; do
  [ -f $d/patch.diff ] || continue
  n=$((n+1))
  out=$(tools/benign_eval.sh $d 2>&1)
  if echo "$out" | grep -q ": silent"; then :; else bad=$((bad+1)); echo "$out" | cut -c1-240; fi
done
echo "benign: $n changes, $bad with alarms"
