#!/bin/bash
# Runs the repository's baseline suite (guard off — there are no hooks) and prints pass/fail counts.
export GOPROXY=off GOSUMDB=off GOTOOLCHAIN=local
cd /repo && go test -mod=mod -json -vet=off -count=1 -timeout 25m ./... 2>&1 | python3 -c "
import sys,json
p=f=0; fails=[]
for l in sys.stdin:
    try: e=json.loads(l)
    except: continue
    if e.get('Test') and e.get('Action')=='pass': p+=1
    if e.get('Test') and e.get('Action')=='fail': f+=1; fails.append(e['Package']+'::'+e['Test'])
print('passed',p,'failed',f); [print(' FAIL',x) for x in fails]
sys.exit(1 if f else 0)"
