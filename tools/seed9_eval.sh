#!/bin/bash
# seed9_eval.sh PROP X : evaluate /tmp/seed9_PROP/X (wave 7: meta.json written by the sub-agent
# names the demo destination) with seed_eval.sh, running every property's check on the changed copy.
prop=$1; x=$2
src=/tmp/seed9_$prop/$x
[ -f $src/meta.json ] || { echo "no meta.json in $src"; exit 2; }
dest=$(python3 -c "import json,sys;print(json.load(open('$src/meta.json'))['demo_file_destination'])")
python3 -c "import json;m=json.load(open('$src/meta.json'));open('$src/meta.txt','w').write(m.get('needs_to_manifest','')+'\nRan: '+str(m.get('ran','')))"
pkg=./$(dirname $dest)/
others=$(for i in $(seq -w 1 20); do [ C$i != $prop ] && echo -n "C$i "; done)
SEED_SRC=$src SEED_AS=$x /verif/tools/seed_eval.sh $prop $x $dest $pkg 'TestSeed' $others
