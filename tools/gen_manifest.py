#!/usr/bin/env python3
"""Regenerates /verif/MANIFEST.json from tools/claims.json (one entry per property)."""
import json, os
here = os.path.dirname(os.path.abspath(__file__))
root = os.path.dirname(here)
claims = json.load(open(os.path.join(here, 'claims.json')))
props = [json.loads(l)['id'] for l in open(os.path.join(root, 'properties.jsonl'))]
baseline = json.load(open('/root/.vp/BASELINE.json'))['cmd'] if os.path.exists('/root/.vp/BASELINE.json') else "cd /repo && go test -vet=off -count=1 ./..."
checks, na = [], []
for pid in props:
    c = claims.get(pid, {})
    if c.get('claimed'):
        # rules added after the claim text was written: named from the last evidence file, whose
        # coverage.rules holds the statement of every rule the check decides on each run
        evp = os.path.join(root, 'evidence', pid + '.json')
        extra = ''
        if os.path.exists(evp):
            rl = json.load(open(evp)).get('coverage', {}).get('rules', [])
            ids = [x.split(':', 1)[0] for x in rl] if isinstance(rl, list) else list(rl.keys())
            def rk(r):
                t = r.split('.', 1)[1] if '.' in r else r
                return (t.rstrip('0123456789'), int(''.join(ch for ch in t if ch.isdigit()) or 0))
            rules = sorted(set(ids), key=rk)
            extra = ' Rules decided on every run (each stated in the evidence file under coverage.rules): ' + ', '.join(rules) + '.'
        c = dict(c); c['text'] = c['text'] + extra
        if c.get('technique_added'):
            c['technique'] = c['technique'] + '; ' + c['technique_added']
        checks.append({
            "property_id": pid,
            "quick_cmd": "/verif/bin/lalcheck -prop %s -tier quick" % pid,
            "thorough_cmd": "/verif/bin/lalcheck -prop %s -tier thorough" % pid,
            "evidence_file": "/verif/evidence/%s.json" % pid,
            "replay_cmd_template": "/verif/bin/lalcheck -explain {path}",
            "engine": "lalcheck",
            "level_claimed": {"category": "other", "text": c['text'], "design_ref": c.get('design_ref', 'DESIGN.md section 4, ' + pid)},
            "level_note": c['note'],
            "technique": c['technique'],
        })
    else:
        na.append({"property_id": pid, "reason": c.get('reason', 'static check not built yet in this round; see DESIGN.md section 8')})
m = {
    "version": 1,
    "setup_cmd": "cd /verif/checker && GOFLAGS=-mod=mod GOPROXY=off GOSUMDB=off GOTOOLCHAIN=local GOWORK=off go build -o /verif/bin/lalcheck ./cmd/lalcheck",
    "hooks": {"guard": "verif", "enable": "none needed: the checks read /repo's source; no instrumentation is compiled in", "baseline_off_cmd": baseline, "source_commits": [], "add_only": True},
    "engines": [{"name": "lalcheck", "path": "/verif/checker", "serves_properties": [c["property_id"] for c in checks],
                 "kind_free_text": "repository-specific static analyser over go/types + go/ssa + VTA call graph (golang.org/x/tools v0.29.0); no lal code is executed"}],
    "checks": checks,
    "not_applicable": na,
    "notes": "Technique family: static analysis only. Every check re-loads and type-checks /repo's working tree on each run. Level 'other' = a named structural clause of the property is decided exactly; the behavioural remainder is listed as NOT DECIDED in each evidence file and in DESIGN.md section 7.",
}
json.dump(m, open(os.path.join(root, 'MANIFEST.json'), 'w'), indent=1)
print("checks:", len(checks), "not_applicable:", len(na))
