#!/usr/bin/env python3
"""Regenerates /verif/MANIFEST.json from tools/claims.json (one entry per property)."""
import json, os
here = os.path.dirname(os.path.abspath(__file__))
root = os.path.dirname(here)
claims = json.load(open(os.path.join(here, 'claims.json')))
props = [json.loads(l)['id'] for l in open(os.path.join(root, 'properties.jsonl'))]
baseline = json.load(open('/root/.vp/BASELINE.json'))['cmd'] if os.path.exists('/root/.vp/BASELINE.json') else "cd /repo && go test -vet=off -count=1 ./..."
checks, na = [], []
for pid in props:
    c = claims.get(pid, {})
    if c.get('claimed'):
        checks.append({
            "property_id": pid,
            "quick_cmd": "/verif/bin/lalcheck -prop %s -tier quick" % pid,
            "thorough_cmd": "/verif/bin/lalcheck -prop %s -tier thorough" % pid,
            "evidence_file": "/verif/evidence/%s.json" % pid,
            "replay_cmd_template": "/verif/bin/lalcheck -explain {path}",
            "engine": "lalcheck",
            "level_claimed": {"category": "other", "text": c['text'], "design_ref": c.get('design_ref', 'DESIGN.md section 4, ' + pid)},
            "level_note": c['note'],
            "technique": c['technique'],
        })
    else:
        na.append({"property_id": pid, "reason": c.get('reason', 'static check not built yet in this round; see DESIGN.md section 8')})
m = {
    "version": 1,
    "setup_cmd": "cd /verif/checker && GOFLAGS=-mod=mod GOPROXY=off GOSUMDB=off GOTOOLCHAIN=local GOWORK=off go build -o /verif/bin/lalcheck ./cmd/lalcheck",
    "hooks": {"guard": "verif", "enable": "none needed: the checks read /repo's source; no instrumentation is compiled in", "baseline_off_cmd": baseline, "source_commits": [], "add_only": True},
    "engines": [{"name": "lalcheck", "path": "/verif/checker", "serves_properties": [c["property_id"] for c in checks],
                 "kind_free_text": "repository-specific static analyser over go/types + go/ssa + VTA call graph (golang.org/x/tools v0.29.0); no lal code is executed"}],
    "checks": checks,
    "not_applicable": na,
    "notes": "Technique family: static analysis only. Every check re-loads and type-checks /repo's working tree on each run. Level 'other' = a named structural clause of the property is decided exactly; the behavioural remainder is listed as NOT DECIDED in each evidence file and in DESIGN.md section 7.",
}
json.dump(m, open(os.path.join(root, 'MANIFEST.json'), 'w'), indent=1)
print("checks:", len(checks), "not_applicable:", len(na))
