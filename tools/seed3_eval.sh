#!/bin/bash
# seed3_eval.sh PROP X [EXTRA_PROPS...] : evaluate /tmp/seed3_PROP/X (wave 3) with seed_eval.sh;
# destination and package are taken from the first pkg/..._test.go path named in demo.txt.
prop=$1; x=$2; shift 2
src=/tmp/seed3_$prop/$x
dest=$(grep -o 'pkg/[A-Za-z0-9_/]*_test\.go' $src/demo.txt | head -1)
[ -z "$dest" ] && { f=$(ls $src/*_test.go | head -1); echo "no destination in demo.txt for $f"; exit 2; }
pkg=./$(dirname $dest)/
SEED_SRC=$src SEED_AS=$x /verif/tools/seed_eval.sh $prop $x $dest $pkg 'TestSeed' "$@"
