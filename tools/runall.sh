#!/bin/bash
# Runs every claimed check (quick tier by default) and validates MANIFEST + evidence files.
cd /verif
tier=${1:-quick}
fail=0
for p in $(python3 -c "import json;print(' '.join(c['property_id'] for c in json.load(open('MANIFEST.json'))['checks']))"); do
  out=$(bin/lalcheck -prop $p -tier $tier 2>&1); code=$?
  echo "$out" | tail -1
  [ $code = 0 ] || { fail=1; echo "  EXIT $code"; echo "$out" | grep -m5 "violated\|UNDECIDED"; }
done
python3-vt - <<'PY'
import json,jsonschema,glob
jsonschema.validate(json.load(open('/verif/MANIFEST.json')), json.load(open('/root/.vp/MANIFEST.schema.json')))
sch=json.load(open('/root/.vp/EVIDENCE.schema.json'))
bad=0
for c in json.load(open('/verif/MANIFEST.json'))['checks']:
    try: jsonschema.validate(json.load(open(c['evidence_file'])),sch)
    except Exception as e: bad+=1; print('INVALID',c['evidence_file'],str(e)[:120])
print('manifest+evidence valid' if not bad else 'evidence problems: %d'%bad)
PY
exit $fail
